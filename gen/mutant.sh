#!/bin/bash
# usage: mutant.sh <patch.diff> <id> [<id> ...]   -- apply a seeded change to /repo, run the quick checks, undo it
set -u
PATCH=$1; shift
cd /repo || exit 2
if [ -n "$(git status --porcelain -- src Cargo.toml)" ]; then echo "repo not clean"; exit 2; fi
git apply "$PATCH" || { echo "patch does not apply"; exit 2; }
trap 'git -C /repo checkout -- . ; (cd /verif/harness && cargo build --release --offline >/dev/null 2>&1); echo "[reverted, harness rebuilt]"' EXIT
cd /verif
for c in "$@"; do
  out=$(./check $c --tier quick 2>&1)
  rc=$?
  echo "== $c rc=$rc :: $(echo "$out" | grep -E "quick:|TOOL-ERROR" | tail -1)"
  echo "$out" | grep -E "^VIOLATION" | head -5
done
