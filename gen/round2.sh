#!/bin/bash
# usage: round2.sh <worktree dir> <check ids...>  -- confirm the agent's claims, then run the checks against the patch
W=$1; shift
/verif/gen/confirm_mutant.sh $W >> /verif/work/confirm2.log 2>&1; tail -1 /verif/work/confirm2.log
/verif/gen/mutant.sh $W/_mutant/patch.diff "$@" 2>&1 | grep -v KNOWN | grep -E "^==|VIOLATION|reverted" | head -12
