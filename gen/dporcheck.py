"""Dpor.tla <-> real loom.

Python enumerates a space of abstract programs (threads = concatenations of blocks, modulo the order of the spawned
threads), TLC runs Dpor.tla on them (every invariant of the design: Complete, Sound, Monotone, Saturates, NoRepeat) and
prints, per program, the reference outcome set (full interleaving semantics) and its prediction of what loom does under
every preemption bound: result set and set of executed thread schedules.  The same programs, as DSL programs, are run on
the real loom under the same bounds.

  property level (VIOLATION):   C01  unbounded loom results include every reference outcome
                                 C15  bounded results within unbounded, monotone in the bound, saturating
  conformance level (evidence):  the set of thread schedules the spec predicts is exactly the set loom executed, and
                                 the spec's results (memory read in execution order) are among loom's (loom's SeqCst
                                 loads may in addition return what another interleaving would have returned)
                                 (`dpor_spec_drift` = 0 on the unchanged tree: the specification is the implementation's
                                 algorithm; a drift is reported as a NOTE, never as a violation - a different but complete
                                 reduction is allowed by the properties)
"""
import itertools, json, os, random, re, shutil

import dsl, tlc, loomrun, pathcheck
from dsl import I, ld, st, spawn, br

SPECS = tlc.SPECS


def blocks_of(kind, atoms, mtxs):
    if kind == "ld":
        return [[("ld", o)] for o in atoms]
    if kind == "st":
        return [[("st", o)] for o in atoms]
    if kind == "csld":
        return [[("lock", m), ("ld", o), ("unlock", m)] for o in atoms for m in mtxs]
    if kind == "csst":
        return [[("lock", m), ("st", o), ("unlock", m)] for o in atoms for m in mtxs]
    if kind == "cs2":
        return [[("lock", m), ("ld", o), ("st", o), ("unlock", m)] for o in atoms for m in mtxs]
    if kind == "try":
        return [[("trylock", m), ("tunlock", m)] for m in mtxs]
    # nested sections over two mutexes: a holder that waits for a second lock, and a holder that only TRIES the second one
    # (it never waits: the pair cannot deadlock, and a thread about to try_lock must not be blocked by the acquisition)
    if kind == "nest":
        return [[("lock", a), ("lock", b), ("unlock", b), ("unlock", a)] for a in mtxs for b in mtxs if a != b]
    if kind == "nesttry":
        return [[("lock", a), ("trylock", b), ("tunlock", b), ("unlock", a)] for a in mtxs for b in mtxs if a != b]
    if kind == "nestld":
        return [[("lock", a), ("ld", o), ("trylock", b), ("tunlock", b), ("unlock", a)] for a in mtxs for b in mtxs if a != b for o in atoms]
    # condvar blocks (one mutex m, one condvar cv, a flag s): wait is three abstract instructions (see Dpor.tla)
    if kind == "cvw":        # lock; wait; unlock
        return [[("lock", m), ("cvwait", "cv"), ("cvblock", "none"), ("lock", m), ("unlock", m)] for m in mtxs[:1]]
    if kind == "cvwld":      # lock; wait; read the flag; unlock
        return [[("lock", m), ("cvwait", "cv"), ("cvblock", "none"), ("lock", m), ("ld", "s"), ("unlock", m)] for m in mtxs[:1]]
    if kind == "cvset1":     # set the flag under the lock, then notify_one outside
        return [[("lock", m), ("st", "s"), ("unlock", m), ("notify1", "cv")] for m in mtxs[:1]]
    if kind == "cvsetall":
        return [[("lock", m), ("st", "s"), ("unlock", m), ("notifyall", "cv")] for m in mtxs[:1]]
    if kind == "cvn1in":     # notify_one while holding the lock
        return [[("lock", m), ("st", "s"), ("notify1", "cv"), ("unlock", m)] for m in mtxs[:1]]
    if kind == "n1":
        return [[("notify1", "cv")]]
    if kind == "nall":
        return [[("notifyall", "cv")]]
    if kind == "nwait":
        return [[("nwait", "nt")]]
    if kind == "notify":
        return [[("notify", "nt")]]
    if kind == "nwaitld":
        return [[("nwait", "nt"), ("ld", o)] for o in atoms]
    if kind == "stnotify":
        return [[("st", o), ("notify", "nt")] for o in atoms]
    if kind == "rdld":
        return [[("read", "l"), ("ld", o), ("unlockr", "l")] for o in atoms]
    if kind == "rdst":
        return [[("read", "l"), ("st", o), ("unlockr", "l")] for o in atoms]
    if kind == "wrst":
        return [[("write", "l"), ("st", o), ("unlockw", "l")] for o in atoms]
    if kind == "wrld":
        return [[("write", "l"), ("ld", o), ("unlockw", "l")] for o in atoms]
    # RwLock and Mutex nested in both orders (lock-order inversions across the two kinds of lock)
    if kind == "rdcs":
        return [[("read", "l"), ("lock", m), ("unlock", m), ("unlockr", "l")] for m in mtxs]
    if kind == "csrd":
        return [[("lock", m), ("read", "l"), ("unlockr", "l"), ("unlock", m)] for m in mtxs]
    if kind == "wrcs":
        return [[("write", "l"), ("lock", m), ("unlock", m), ("unlockw", "l")] for m in mtxs]
    if kind == "cswr":
        return [[("lock", m), ("write", "l"), ("unlockw", "l"), ("unlock", m)] for m in mtxs]
    if kind == "cstryrd":
        return [[("lock", m), ("tryread", "l"), ("tunlockr", "l"), ("unlock", m)] for m in mtxs]
    if kind == "cstrywr":
        return [[("lock", m), ("trywrite", "l"), ("tunlockw", "l"), ("unlock", m)] for m in mtxs]
    if kind == "tryrd":
        return [[("tryread", "l"), ("tunlockr", "l")]]
    if kind == "trywr":
        return [[("trywrite", "l"), ("tunlockw", "l")]]
    if kind == "yield":
        return [[("yield", "none")]]
    # stop_exploring regions hold stores only: a load inside a region returns loom's default candidate (no alternative is
    # explored for it), which need not be the value of the interleaving semantics this reference uses
    if kind == "rg":         # a region around two stores
        acc = [("st", o) for o in atoms]
        return [[("stopx", "none"), a, b, ("explore", "none")] for a in acc for b in acc]
    if kind == "rg1":
        return [[("stopx", "none"), ("st", o), ("explore", "none")] for o in atoms]
    if kind == "rgcs":       # ... around a critical section (the region's thread may block inside it)
        return [[("stopx", "none"), ("lock", m), ("st", o), ("unlock", m), ("explore", "none")] for o in atoms for m in mtxs]
    if kind == "skip":
        return [[("skipb", "none")]]
    if kind == "send":
        return [[("send", "ch")]]
    if kind == "recv":
        return [[("recv", "ch")]]
    if kind == "tryrecv":
        return [[("tryrecv", "ch")]]
    # channel operations inside a critical section (the receiver may block while it holds the mutex the sender needs)
    if kind == "cssend":
        return [[("lock", m), ("send", "ch"), ("unlock", m)] for m in mtxs]
    if kind == "csrecv":
        return [[("lock", m), ("recv", "ch"), ("unlock", m)] for m in mtxs]
    if kind == "trysend":
        return [[("trylock", m), ("tunlock", m), ("send", "ch")] for m in mtxs]
    if kind == "acount":
        return [[("acount", "A")]]
    if kind == "aclonedrop":
        return [[("aclone", "A"), ("adrop", "A")]]
    if kind == "acloneinspectdrop":
        return [[("aclone", "A"), ("acount", "A"), ("adrop", "A")]]
    if kind == "park":
        return [[("park", "none")]]
    if kind == "cspark":     # parks while it holds the mutex
        return [[("lock", m), ("park", "none"), ("unlock", m)] for m in mtxs]
    raise ValueError(kind)


def space2(n, kinds, main_kinds, atoms, mtxs, k, main_k, chan=False, arc=False, unpark_to=()):
    """like space(), with different block kinds for main; chan: main is the receiver and drops it at the end;
    arc: every thread owns a handle of one Arc (main clones it for the others first) and drops it at the end;
    unpark_to: spawned threads may unpark these threads"""
    Bs = [b for kd in kinds for b in blocks_of(kd, atoms, mtxs)] + [[("unpark", u)] for u in unpark_to]
    Bm = [b for kd in main_kinds for b in blocks_of(kd, atoms, mtxs)]
    codes = [sum(c, []) for c in itertools.product(Bs, repeat=k)]
    mains = [sum(c, []) for c in itertools.product(Bm, repeat=main_k)]
    out = []
    for m in mains:
        for ix in itertools.combinations_with_replacement(range(len(codes)), n - 1):
            pre = [("aclone", "A")] * (n - 1) if arc else []
            main = pre + [("spawnall", "none")] + list(m) + ([("droprx", "ch")] if chan else []) + ([("adrop", "A")] if arc else [])
            ths = [list(codes[i]) + ([("adrop", "A")] if arc else []) + [("ntf", f"j{t + 2}")] for t, i in enumerate(ix)]
            if unpark_to and any(op == "unpark" and o == t + 2 for t, th in enumerate(ths) for (op, o) in th):
                continue          # a thread does not unpark itself
            out.append([main] + ths)
    return out


def space(n, kinds, atoms, mtxs, k, main_k):
    """abstract programs: list of per-thread op lists (thread 1 = main), spawned threads end with the JoinHandle notify"""
    B = [b for kd in kinds for b in blocks_of(kd, atoms, mtxs)]
    codes = [sum(c, []) for c in itertools.product(B, repeat=k)]
    mains = [sum(c, []) for c in itertools.product(B, repeat=main_k)]
    out = []
    for m in mains:
        for ix in itertools.combinations_with_replacement(range(len(codes)), n - 1):
            out.append([list(m)] + [list(codes[i]) + [("ntf", f"j{t + 2}")] for t, i in enumerate(ix)])
    return out


def space_joined(n, kinds, atoms, mtxs, k, finals):
    """spawned threads of k blocks each; main spawns them, joins them all (JoinHandle::join = Notify::wait) and then loads `finals`"""
    B = [b for kd in kinds for b in blocks_of(kd, atoms, mtxs)]
    codes = [sum(c, []) for c in itertools.product(B, repeat=k)]
    out = []
    for ix in itertools.combinations_with_replacement(range(len(codes)), n - 1):
        main = [("spawnall", "none")] + [("join", f"j{t}") for t in range(2, n + 1)] + [("ld", o) for o in finals]
        out.append([main] + [list(codes[i]) + [("ntf", f"j{t + 2}")] for t, i in enumerate(ix)])
    return out


def ctl_after_nonbranching(p):
    """a control call right after an operation that is no scheduling point in loom (unlock, unpark): the decision 'who runs after
    the last real scheduling point' is then taken inside the region although the program text puts it before - such programs
    are left out of the region spaces (the reference semantics lets other threads run before the unlock)"""
    for th in p:
        for (a, b) in zip(th, th[1:]):
            if a[0] in ("unlock", "tunlock", "unpark") and b[0] in ("stopx", "skipb"):
                return True
    return False


def to_tla(progs):
    def ins(i):
        return f'[op |-> "{i[0]}", o |-> {i[1]}]' if isinstance(i[1], int) else f'[op |-> "{i[0]}", o |-> "{i[1]}"]'
    return "{" + ",\n  ".join("<<" + ", ".join("<<" + ", ".join(ins(i) for i in th) + ">>" for th in p) + ">>" for p in progs) + "}"


def to_dsl(p, name):
    """the DSL program the interpreter runs: main spawns, runs its own code and ends (no joins: the JoinHandles are
    dropped, each spawned thread still notifies its handle's Notify when it ends)"""
    threads = []
    for t, code in enumerate(p, start=1):
        explicit = any(op == "spawnall" for (op, o) in p[0])
        th = [spawn(u) for u in range(2, len(p) + 1)] if t == 1 and not explicit else []
        nreg = 0
        pending_clone = False
        spawned_yet = False
        skip = 0
        for i, (op, o) in enumerate(code, start=1):
            if skip:
                skip -= 1
                continue
            if op == "spawnall":
                spawned_yet = True
            if op == "ld":
                th.append(ld(o, "sc")); nreg += 1
            elif op == "st":
                th.append(st(o, 10 * t + i, "sc"))
            elif op == "lock":
                th.append(I("lock", o))
            elif op == "unlock":
                th.append(I("unlock", o))
            elif op == "trylock":
                th.append(I("trylock", o)); nreg += 1
            elif op == "tunlock":
                th += [br(nreg, 1, 1), I("unlock", o)]
            elif op in ("read", "write", "unlockr", "unlockw"):
                th.append(I(op, o))
            elif op in ("tryread", "trywrite"):
                th.append(I(op, o)); nreg += 1
            elif op in ("tunlockr", "tunlockw"):
                th += [br(nreg, 1, 1), I("unlockr" if op == "tunlockr" else "unlockw", o)]
            elif op == "yield":
                th.append(I("yield"))
            elif op in ("stopx", "explore", "skipb"):
                th.append(I(op))
            elif op == "spawnall":
                th += [spawn(u) for u in range(2, len(p) + 1)]
            elif op == "send":
                th.append(I("send", o, v=10 * t + i))
            elif op == "recv":
                th.append(I("recv", o)); nreg += 1
            elif op == "tryrecv":
                th.append(I("tryrecv", o)); nreg += 1
            elif op == "droprx":
                th.append(I("droprx", o))
            elif op == "acount":
                th.append(I("acount", f"a{t}")); nreg += 1
            elif op == "aclone":
                if not spawned_yet and t == 1:
                    pass                                   # main's initial clones are made by the interpreter (Sh::new)
                else:
                    th.append(I("aclone", f"a{t}", o2=f"a{t}b")); pending_clone = True
            elif op == "adrop":
                if pending_clone:
                    th.append(I("adrop", f"a{t}b")); pending_clone = False
                else:
                    th.append(I("adrop", f"a{t}"))
            elif op == "park":
                th.append(I("park"))
            elif op == "unpark":
                th.append(dsl.unpark(o))
            elif op == "join":
                th.append(dsl.join(int(o[1:])))
            elif op == "cvwait":
                th.append(I("cvwait", o, o2=code[i + 1][1]))       # code[i + 1] (0-based) is the re-lock: its mutex
                skip = 2                                               # "cvblock" and the re-lock are part of Condvar::wait
            elif op in ("notify1", "notifyall", "nwait", "notify"):
                th.append(I(op, o))
            elif op == "ntf":
                pass
            else:
                raise ValueError(op)
        threads.append(th)
    d = {"threads": threads, "name": name, "tags": ["dpor"]}
    if any(op in ("acount", "aclone", "adrop") for th in p for (op, o) in th):
        d["arcs"] = {"A": {"h0": [f"a{t}" for t in range(1, len(p) + 1)], "cell": ""}}
    return dsl.normalize(d)


def key_of(regs, drops=()):
    return tlc.canon_key(regs, list(drops))


def run_spec(ctx, progs, bounds, n, label, rule="perthread", timeout=3000, invariants=True, chunk=300):
    """one TLC run per chunk of programs: every state carries the schedule sets collected so far, and TLC keeps one
    live state per program, so memory grows with the number of programs in a run"""
    chunk = max(40, chunk // max(1, len(bounds) // 2))         # every bound adds a set of schedules to the state
    if len(progs) > chunk:
        out = {}
        for k in range(0, len(progs), chunk):
            out.update(run_spec(ctx, progs[k:k + chunk], bounds, n, label, rule, timeout, invariants, chunk))
        return out
    work = os.path.join(ctx.work, label)
    os.makedirs(work, exist_ok=True)
    with open(os.path.join(work, "MCDporRun.tla"), "w") as f:
        f.write("---- MODULE MCDporRun ----\nEXTENDS Dpor\nRunProgs ==\n  " + to_tla(progs) + "\nRunBounds == <<" +
                ", ".join(str(99 if b is None else b) for b in bounds) + ">>\n====\n")
    cfg = os.path.join(work, "MCDporRun.cfg")
    with open(cfg, "w") as f:
        f.write(f'SPECIFICATION Spec\nCONSTANTS\n  N = {n}\n  Progs <- RunProgs\n  BoundList <- RunBounds\n  Rule = "{rule}"\n  Emit = TRUE\n'
                "INVARIANTS NoPanic NoRepeat " + ("Complete Sound Monotone Saturates " if invariants is True else
                                                  " ".join(invariants) + " " if invariants else "") + "Report\nCHECK_DEADLOCK FALSE\n")
    r = tlc.run_tlc(work, "MCDporRun", cfg, workers=ctx.tlc_workers, timeout=timeout, xmx="10g")
    ctx.add_tlc(r, label)
    if "Model checking completed. No error has been found." not in r["text"]:
        with open(os.path.join(work, "tlc_error.log"), "w") as f:
            f.write(r["text"])
        m = re.search(r"Invariant (\w+) is violated", r["text"])
        raise tlc.ToolError(f"Dpor.tla: {'invariant ' + m.group(1) + ' violated' if m else 'TLC failed'} on {label} "
                            f"(the design itself, see {work}/tlc_error.log)")
    out = {}
    for m in re.finditer(r'<<"DPOR", "(.*)">>', r["text"]):
        d = json.loads(m.group(1).encode().decode("unicode_escape"))
        key = json.dumps([[[i["op"], i["o"]] for i in th] for th in d["prog"]])
        out[key] = d
    return out


def sched_seqs(res):
    """set of thread-schedule sequences (schedule branches only) of the completed iterations of one loom run"""
    out = set()
    for (ph, it, path) in res.get("hook_events", []):
        if ph == "end":
            c = pathcheck.canon_path(path)
            out.add(tuple((e["th"].index("Active") + 1 if "Active" in e["th"] else 0) for e in c["br"] if e["k"] == "S"))
    return out


def run(ctx, spaces, bounds, sample, rng, want=("C01", "C15")):
    """spaces: list of (label, n, kinds, atoms, mtxs, k, main_k)"""
    total = drift = nontriv = 0
    for sp in spaces:
        if isinstance(sp, dict):
            label, n, progs, inv = sp["label"], sp["n"], sp["progs"], sp.get("invariants", True)
            use_results = sp.get("results", True)
        else:
            (label, n, kinds, atoms, mtxs, k, main_k) = sp
            progs, inv, use_results = space(n, kinds, atoms, mtxs, k, main_k), True, True
        if sample and len(progs) > sample:
            progs = rng.sample(progs, sample)
        spec = run_spec(ctx, progs, bounds, n, label, invariants=inv)
        items, meta = [], []
        dprogs = []
        for pi, p in enumerate(progs):
            d = to_dsl(p, f"{label}-{pi}")
            dprogs.append(d)
            for b in bounds:
                cfg = {"trace_cap": 0, "want_paths": True, "path_cap": 3000, "iter_cap": 100000}
                if b is not None:
                    cfg["preemption_bound"] = b
                items.append({"prog": d, "cfg": cfg})
                meta.append((pi, b))
        R = loomrun.run_items(os.path.join(ctx.work, label + "_loom"), items, jobs=ctx.jobs, tag=label)
        ctx.cov["loom_iterations"] += sum(r.get("iters", 0) for r in R)
        by = {}
        for (pi, b), r in zip(meta, R):
            by[(pi, b)] = r
        for pi, p in enumerate(progs):
            d = dprogs[pi]
            sp = spec[json.dumps([[list(i) for i in th] for th in p])]
            drops = [1] if any(op in ("acount", "aclone", "adrop") for th in p for (op, o) in th) else []   # the payload is dropped once
            ref = {key_of(o["regs"], drops) if o["end"] == "ok" else "deadlock" for o in sp["ref"]}
            nops = sum(len(th) for th in p)
            real = {}
            for b in bounds:
                r = by[(pi, b)]
                if r["end"] == "deadlock":
                    real[b] = loomrun.loom_keys(r) | {"deadlock"}       # the iterations completed before the report count too
                elif r["end"] != "ok":
                    ctx.violation("dpor-run-failed", d, {"bound": b, "end": r["end"]}, {"msg": r.get("msg", "")[:200]})
                    real[b] = None
                else:
                    real[b] = loomrun.loom_keys(r)
            total += 1
            if len(ref) >= 2:
                nontriv += 1
            ub = real.get(None)
            full = inv is True or (isinstance(inv, (list, tuple)) and "Complete" in inv)
            # a deadlock report for a program whose reference has none (these programs do not branch on loaded values:
            # whether they can deadlock does not depend on the memory model)
            if ub is not None and inv and "deadlock" in ub and "deadlock" not in ref:
                ctx.violation("false-report", d, "deadlock", {"reference": "Dpor.tla RefOutcomes"})
            if "C01" in want and ub is not None and use_results and full:
                if "deadlock" in ref:
                    if "deadlock" not in ub:
                        ctx.violation("missed-report", d, "deadlock", {"reference": "Dpor.tla RefOutcomes"})
                else:
                    for w in sorted(ref - ub):
                        ctx.violation("missing-outcome", d, w, {"reference": "Dpor.tla RefOutcomes", "loom_outcomes": len(ub)})
                    # no "illegal outcome" direction here: loom's SeqCst loads and stores behave as acquire/release
                    # (README, C03), so loom may legally return more than the interleaving semantics; C03 owns soundness
            if "C15" in want and ub is not None and "deadlock" not in ref and full:
                prev = None
                for b in [x for x in bounds if x is not None]:
                    kb = real[b]
                    if kb is None:
                        continue
                    for w in sorted(kb - ub):
                        ctx.violation("bounded-not-in-unbounded", d, {"bound": b, "outcome": w}, {})
                    if prev is not None:
                        for w in sorted(prev[1] - kb):
                            ctx.violation("not-monotone", d, {"bound_small": prev[0], "bound_large": b, "outcome": w}, {})
                    if b >= nops:
                        for w in sorted(ub - kb):
                            ctx.violation("large-bound-incomplete", d, {"bound": b, "outcome": w}, {"ops": nops})
                    prev = (b, kb)
            # conformance of the specification: what Dpor.tla predicted is what loom did
            for bi, b in enumerate(bounds):
                r = by[(pi, b)]
                if real[b] is None:
                    continue
                pr = sp["runs"][bi]
                pres = {key_of(o["regs"], drops) if o["end"] == "ok" else "deadlock" for o in pr["res"]}
                # (negative entries are the spurious decisions of Notify::wait: part of the decision sequence, not of the schedule)
                psch = {tuple(x for x in s if x >= 0) for s in pr["scheds"] if list(s) != list(pr["deadsched"])}
                rsch = sched_seqs(r)              # the deadlocked iteration has no end event
                if (use_results and not (pres <= real[b])) or (r["end"] in ("ok", "deadlock") and len(r.get("hook_events", [])) < 2900 and psch != rsch):
                    drift += 1
                    if drift <= 5:
                        ctx.notes.append(f"dpor-spec-drift {dsl.pretty(d)} bound={b}: results spec={len(pres)} loom={len(real[b])}; "
                                         f"schedules spec={len(psch)} loom={len(rsch)} (only-spec={sorted(psch - rsch)[:2]}, only-loom={sorted(rsch - psch)[:2]})")
                ctx.cov["traces_validated_against_impl"] += len(rsch)
        ctx.cov["evaluations"] += len(items)
    ctx.cov["dpor_programs"] = ctx.cov.get("dpor_programs", 0) + total
    ctx.cov["dpor_spec_drift"] = ctx.cov.get("dpor_spec_drift", 0) + drift
    ctx.cov["programs"] += total
    ctx.cov["distinct_nontrivial"] += nontriv
    if drift:
        print(f"NOTE: Dpor.tla predicted something else than loom did for {drift} (program, bound) pairs - see evidence notes")
    return total, drift
