#!/bin/sh
# usage: seedsweep.sh "<ids>" "<seeds>"   -- runs quick checks under several seeds (from a vp run snapshot)
cd "$(dirname "$0")/.."
for s in $2; do for c in $1; do
  VERIF_SEED=$s ./check $c --no-build 2>&1 | grep -E "VIOLATION|TOOL-ERROR|quick:|Traceback" | sed "s/^/seed=$s /"
done; done
