"""Explore.tla as a state machine (ExploreMC.tla): TLC checks the engine invariants and every finished
behaviour is replayed into the real rt::Path through loom::verif::PathDriver (harness bin pathreplay)."""
import json, os, re, shutil, subprocess
import tlc, loomrun

SPECS = tlc.SPECS


def run_engine(ctx, cfgs, label="engine", timeout=900):
    """cfgs: list of cfg file names.  Records violations on ctx.  Returns behaviours replayed."""
    work = os.path.join(ctx.work, label)
    os.makedirs(work, exist_ok=True)
    shutil.copy(os.path.join(SPECS, "ExploreMC.tla"), os.path.join(work, "ExploreMC.tla"))
    total = 0
    for cfg in cfgs:
        r = tlc.run_tlc(work, "ExploreMC", os.path.join(SPECS, cfg), workers=ctx.tlc_workers, timeout=timeout, coverage=False,
                        tag="_" + cfg)
        text = r["text"]
        ctx.cov["states"] += r["stats"]["distinct"]
        ctx.cov["transitions"] += r["stats"]["generated"]
        ctx.cov["tlc_runs"].append({"label": cfg, "distinct": r["stats"]["distinct"], "generated": r["stats"]["generated"],
                                    "wall_s": round(r["wall"], 1)})
        if "Model checking completed. No error has been found." not in text:
            m = re.search(r"Invariant (\w+) is violated", text)
            log = os.path.join(work, cfg + ".tlc.log")
            with open(log, "w") as f:
                f.write(re.sub(r'^<<"REPLAY".*\n', "", text, flags=re.M))
            if m:
                ctx.violation("engine-invariant", None, {"cfg": cfg, "invariant": m.group(1)},
                              {"note": "TLC found a behaviour of the engine specification violating the invariant", "log": log})
                continue
            raise tlc.ToolError(f"ExploreMC failed on {cfg} (see {log})")
        beh = os.path.join(work, cfg + ".beh.ndjson")
        n = 0
        with open(beh, "w") as f:
            for m in re.finditer(r'^<<"REPLAY", "(.*)">>$', text, re.M):
                f.write(m.group(1).replace('\\"', '"').replace("\\\\", "\\") + "\n")
                n += 1
        if n == 0:
            raise tlc.ToolError(f"ExploreMC produced no behaviour on {cfg}")
        out = os.path.join(work, cfg + ".replay.json")
        p = subprocess.run([os.path.join(loomrun.HARNESS, "target/release/pathreplay"), beh, out], capture_output=True, text=True)
        if p.returncode != 0:
            raise loomrun.ToolError("pathreplay failed: " + p.stderr[-500:])
        rep = json.load(open(out))
        total += rep["behaviours"]
        ctx.cov["engine_behaviours_replayed"] = ctx.cov.get("engine_behaviours_replayed", 0) + rep["behaviours"]
        ctx.cov["engine_actions_replayed"] = ctx.cov.get("engine_actions_replayed", 0) + rep["actions"]
        ctx.cov["engine_serde_roundtrips"] = ctx.cov.get("engine_serde_roundtrips", 0) + rep["steps"]
        ctx.cov["traces_validated_against_impl"] += rep["behaviours"]
        for mm in rep["first"]:
            ctx.violation("engine-mismatch", None, {"cfg": cfg, "action": mm.get("action"), "impl": mm.get("impl")},
                          {"behaviour": mm.get("behaviour"), "action_index": mm.get("action_index"), "log": mm.get("log")})
        if len(ctx.cov["samples"]) < 3:
            first = open(beh).readline()
            ctx.cov["samples"].append({"engine_behaviour_" + cfg: json.loads(first)[:12]})
    return total
