#!/bin/bash
# usage: confirm_mutant.sh <ID>  -- in the scratch worktree /tmp/wt_<ID> (patch applied, demo present):
#   demo fails with the patch, the existing suite passes with it, the demo passes without it.
ID=$1; W=/tmp/wt_$ID; case "$ID" in /*) W=$ID; ID=$(basename $W);; esac; cd $W || exit 2
DEMO=$(ls tests/seeded* 2>/dev/null | head -1); T=$(basename "$DEMO" .rs)
FEAT=""; grep -q 'loom::future' "$DEMO" && FEAT="--features futures"
grep -q 'checkpoint' "$DEMO" && FEAT="--features checkpoint"
git apply --check -R _mutant/patch.diff 2>/dev/null || { git checkout -- src; git apply _mutant/patch.diff; }
cargo test --offline -j4 $FEAT --test $T > _mutant/confirm_with_patch.log 2>&1; RC1=$?
mv $DEMO /tmp/_demo_$ID.rs
cargo test --offline -j4 --no-fail-fast > _mutant/confirm_suite.log 2>&1; RC2=$?
mv /tmp/_demo_$ID.rs $DEMO
git apply -R _mutant/patch.diff
cargo test --offline -j4 $FEAT --test $T > _mutant/confirm_without_patch.log 2>&1; RC3=$?
git apply _mutant/patch.diff
echo "$ID demo_with_patch_rc=$RC1 (want !=0) suite_with_patch_rc=$RC2 (want 0) demo_without_patch_rc=$RC3 (want 0) suite: $(grep -c '^test result: ok' _mutant/confirm_suite.log) ok-lines, $(grep -cE 'FAILED|failed' _mutant/confirm_suite.log) failed-lines"
