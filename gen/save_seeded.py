#!/usr/bin/env python3
"""save_seeded.py <worktree id> <seeded name> <property> <detected_by csv> <needs...>"""
import sys, os, json, shutil, glob
wid, name, prop, det = sys.argv[1:5]
needs = " ".join(sys.argv[5:])
src = (wid if wid.startswith("/") else f"/tmp/wt_{wid}") + "/_mutant"
wid = os.path.basename(wid)
dst = f"/verif/seeded/{name}"
os.makedirs(dst, exist_ok=True)
shutil.copy(os.path.join(src, "patch.diff"), dst)
for f in glob.glob(os.path.join(src, "*.rs")) + glob.glob(os.path.join(src, "README.md")):
    shutil.copy(f, dst)
confirm = ""
for l in open("/verif/work/confirm1.log").read().splitlines() + (open("/verif/work/confirm2.log").read().splitlines() if os.path.exists("/verif/work/confirm2.log") else []):
    if l.startswith(wid + " "):
        confirm = l
meta = {"breaks_property": prop, "needs_to_manifest": needs,
        "origin": "independent sub-agent given only the property text and a scratch worktree",
        "confirmed_by_me": {"command": f"gen/confirm_mutant.sh {wid}  (demo test with patch / existing suite with patch / demo test without patch, in the scratch worktree)",
                            "result": confirm},
        "checks_run": f"gen/mutant.sh {dst}/patch.diff {det.replace(',', ' ')}  (git -C /repo apply; ./check <id> --tier quick; git -C /repo checkout -- .)",
        "detected_by": [d for d in det.split(",") if d and not d.startswith("!")],
        "not_detected_by": [d[1:] for d in det.split(",") if d.startswith("!")]}
json.dump(meta, open(os.path.join(dst, "meta.json"), "w"), indent=1)
print("saved", dst)
