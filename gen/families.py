"""Program families (DESIGN.md §6).  Deterministic enumerations plus a seeded random tail."""
import itertools, random
from dsl import *


def wrap(spawned, finals=(), name="", main_pre=(), main_post=(), tags=()):
    """main = pre; spawn all; join all; post; final relaxed loads"""
    n = len(spawned)
    main = list(main_pre) + [spawn(t) for t in range(2, n + 2)] + [join(t) for t in range(2, n + 2)]
    main += list(main_post) + [ld(x) for x in finals]
    p = {"threads": [main] + [list(t) for t in spawned], "name": name, "tags": list(tags)}
    return p


def has_sc_access(p):
    return any(i["op"] in ("ld", "st", "rmw", "cas", "await") and "sc" in (i["ord"], i["ord2"])
               for th in p["threads"] for i in th)


def n_ops(p):
    return sum(len(t) for t in p["threads"][1:])


LD_ORDS = ["rlx", "acq", "sc"]
ST_ORDS = ["rlx", "rel", "sc"]
RMW_ORDS = ["rlx", "acq", "rel", "acqrel", "sc"]
F_ORDS = ["acq", "rel", "acqrel", "sc"]


def litmus_shapes():
    out = []

    def add(name, spawned, finals=()):
        out.append(wrap(spawned, finals, name=name, tags=["litmus"]))

    # message passing
    for w, r in itertools.product(ST_ORDS, LD_ORDS):
        add(f"MP[{w},{r}]", [[st("y", 1), st("x", 1, w)], [ld("x", r), ld("y")]])
    for f1, f2 in itertools.product(["rel", "acqrel", "sc"], ["acq", "acqrel", "sc"]):
        add(f"MP+fences[{f1},{f2}]", [[st("y", 1), fence(f1), st("x", 1)], [ld("x"), fence(f2), ld("y")]])
    add("MP+relfence+acqload", [[st("y", 1), fence("rel"), st("x", 1)], [ld("x", "acq"), ld("y")]])
    add("MP+relstore+acqfence", [[st("y", 1), st("x", 1, "rel")], [ld("x"), fence("acq"), ld("y")]])
    add("MP+wrongfence", [[st("y", 1), fence("acq"), st("x", 1)], [ld("x"), fence("rel"), ld("y")]])
    # store buffering
    for (w1, r1), (w2, r2) in itertools.product([("rlx", "rlx"), ("rel", "acq"), ("sc", "sc")], repeat=2):
        add(f"SB[{w1},{r1};{w2},{r2}]", [[st("x", 1, w1), ld("y", r1)], [st("y", 1, w2), ld("x", r2)]])
    for f1, f2 in itertools.product(["acqrel", "sc"], repeat=2):
        add(f"SB+fences[{f1},{f2}]", [[st("x", 1), fence(f1), ld("y")], [st("y", 1), fence(f2), ld("x")]])
    # load buffering (the po u rf cycle is excluded by the machine itself)
    for r, w in [("rlx", "rlx"), ("acq", "rel")]:
        add(f"LB[{r},{w}]", [[ld("x", r), st("y", 1, w)], [ld("y", r), st("x", 1, w)]])
    # coherence
    add("CoRR", [[st("x", 1)], [st("x", 2)], [ld("x"), ld("x")]], ["x"])
    add("CoRR-acq", [[st("x", 1, "rel")], [st("x", 2, "rel")], [ld("x", "acq"), ld("x", "acq")]], ["x"])
    add("CoWR", [[st("x", 1), ld("x")], [st("x", 2)]], ["x"])
    add("CoRW", [[ld("x"), st("x", 1)], [st("x", 2)]], ["x"])
    add("CoWW", [[st("x", 1), st("x", 2)], [ld("x"), ld("x")]], ["x"])
    add("C03-example", [[st("y", 1), st("y", 2)], [st("y", 3), ld("y")]], ["y"])
    add("C03-example-3w", [[st("y", 1), st("y", 2)], [st("y", 3), ld("y")], [ld("y"), ld("y")]], ["y"])
    add("C01-example", [[st("x", 1, "sc"), ld("x", "sc")], [ld("x", "sc"), st("x", 2, "sc")]], ["x"])
    add("C01-example-rlx", [[st("x", 1), ld("x")], [ld("x"), st("x", 2)]], ["x"])
    add("2+2W", [[st("x", 1), st("y", 2)], [st("y", 1), st("x", 2)]], ["x", "y"])
    add("2+2W-rel", [[st("x", 1, "rel"), st("y", 2, "rel")], [st("y", 1, "rel"), st("x", 2, "rel")]], ["x", "y"])
    # RMWs
    for o in ["rlx", "acqrel", "sc"]:
        add(f"swap-swap[{o}]", [[swap("x", 1, o)], [swap("x", 2, o)]], ["x"])
        add(f"st-swap[{o}]", [[st("x", 1)], [swap("x", 2, o)]], ["x"])
        add(f"fadd-fadd-ld[{o}]", [[fadd("x", 10, o)], [fadd("x", 20, o)], [ld("x")]], ["x"])
    add("st-st-swap", [[st("x", 1), st("x", 2)], [swap("x", 3)]], ["x"])
    add("swap-ld-ld", [[st("x", 1)], [swap("x", 2)], [ld("x"), ld("x")]], ["x"])
    for s, f in [("rlx", "rlx"), ("acqrel", "acq"), ("sc", "sc"), ("rel", "rlx")]:
        add(f"cas-cas[{s},{f}]", [[cas("x", 0, 1, s, f)], [cas("x", 0, 2, s, f)]], ["x"])
    add("cas-st", [[cas("x", 0, 1)], [st("x", 2)]], ["x"])
    add("cas-chain", [[cas("x", 0, 1, "acqrel", "acq")], [cas("x", 1, 2, "acqrel", "acq")], [ld("x", "acq")]], ["x"])
    # release sequences
    add("relseq-rmw", [[st("y", 1), st("x", 1, "rel")], [fadd("x", 10)], [ld("x", "acq"), ld("y")]])
    add("relseq-rmw-acqrel", [[st("y", 1), st("x", 1, "rel")], [fadd("x", 10, "acqrel")], [ld("x", "acq"), ld("y")]])
    add("relseq-samethread", [[st("y", 1), st("x", 1, "rel"), st("x", 2)], [ld("x", "acq"), ld("y")]])
    add("relseq-broken", [[st("y", 1), st("x", 1, "rel")], [st("x", 2)], [ld("x", "acq"), ld("y")]])
    add("relfence-relseq", [[st("y", 1), fence("rel"), st("x", 1), st("x", 2)], [ld("x", "acq"), ld("y")]])
    # multi-hop
    for w, r, w2, r2 in [("rel", "acq", "rel", "acq"), ("rel", "rlx", "rel", "acq"), ("rlx", "rlx", "rlx", "rlx"),
                         ("rel", "acq", "rlx", "acq"), ("sc", "sc", "sc", "sc")]:
        add(f"WRC[{w},{r},{w2},{r2}]", [[st("x", 1, w)], [ld("x", r), st("y", 1, w2)], [ld("y", r2), ld("x")]])
    add("C02-example", [[st("y", 1), st("x", 1, "rel")], [ld("x"), st("z", 1, "rel")],
                        [ld("z", "acq"), fence("acq"), ld("y")]])
    add("ISA2", [[st("x", 1), st("y", 1, "rel")], [ld("y", "acq"), st("z", 1, "rel")], [ld("z", "acq"), ld("x")]])
    add("ISA2-rlxmid", [[st("x", 1), st("y", 1, "rel")], [ld("y"), st("z", 1, "rel")], [ld("z", "acq"), ld("x")]])
    # SC fences
    add("RWC+scfences", [[st("x", 1)], [ld("x"), fence("sc"), ld("y")], [st("y", 1), fence("sc"), ld("x")]])
    add("W+RWC", [[st("x", 1), st("z", 1, "rel")], [ld("z", "acq"), fence("sc"), ld("y")],
                  [st("y", 1), fence("sc"), ld("x")]])
    add("fence-mo", [[st("x", 1), fence("sc"), ld("y")], [st("y", 1), fence("sc"), st("x", 2)]], ["x"])
    return out


def litmus_thorough_shapes():
    out = []

    def add(name, spawned, finals=()):
        out.append(wrap(spawned, finals, name=name, tags=["litmus", "big"]))
    for r in ["rlx", "acq", "sc"]:
        w = {"rlx": "rlx", "acq": "rel", "sc": "sc"}[r]
        add(f"IRIW[{r}]", [[st("x", 1, w)], [st("y", 1, w)], [ld("x", r), ld("y", r)], [ld("y", r), ld("x", r)]])
    add("IRIW+scfences", [[st("x", 1)], [st("y", 1)], [ld("x"), fence("sc"), ld("y")], [ld("y"), fence("sc"), ld("x")]])
    add("CoRR2", [[st("x", 1)], [st("x", 2)], [ld("x"), ld("x")], [ld("x"), ld("x")]], ["x"])
    add("3W", [[st("x", 1)], [st("x", 2)], [st("x", 3), ld("x")]], ["x"])
    return out


def random_litmus(rng, max_threads=3, max_ops=6, sc_access=True):
    nt = rng.choice([2, 2, 3]) if max_threads >= 3 else 2
    locs = ["x", "y", "z"][: rng.choice([1, 2, 2, 3])]
    nextv = {l: 1 for l in locs}
    addv = {l: 10 for l in locs}
    total = 0
    threads = []
    budget = max_ops if nt == 2 else min(max_ops, 6)
    for t in range(nt):
        n = rng.choice([1, 2, 2, 3])
        th = []
        for _ in range(n):
            if total >= budget:
                break
            op = rng.choice(["ld", "ld", "ld", "st", "st", "st", "swap", "add", "cas", "fence"])
            if op == "fence":
                th.append(fence(rng.choice(F_ORDS)))
            else:
                x = rng.choice(locs)
                if op == "ld":
                    th.append(ld(x, rng.choice(LD_ORDS if sc_access else LD_ORDS[:2])))
                elif op == "st":
                    th.append(st(x, nextv[x], rng.choice(ST_ORDS if sc_access else ST_ORDS[:2])))
                    nextv[x] += 1
                elif op == "swap":
                    th.append(swap(x, nextv[x], rng.choice(RMW_ORDS if sc_access else RMW_ORDS[:4])))
                    nextv[x] += 1
                elif op == "add":
                    th.append(fadd(x, addv[x], rng.choice(RMW_ORDS if sc_access else RMW_ORDS[:4])))
                    addv[x] *= 2
                elif op == "cas":
                    exp = rng.choice([0] + list(range(1, nextv[x])))
                    s = rng.choice(RMW_ORDS if sc_access else RMW_ORDS[:4])
                    f = rng.choice({"rlx": ["rlx"], "acq": ["rlx", "acq"], "rel": ["rlx"], "acqrel": ["rlx", "acq"],
                                    "sc": ["rlx", "acq", "sc"]}[s])
                    th.append(cas(x, exp, nextv[x], s, f))
                    nextv[x] += 1
            total += 1
        if th:
            threads.append(th)
    if len(threads) < 2 or all(i["op"] == "fence" for th in threads for i in th):
        return random_litmus(rng, max_threads, max_ops, sc_access)
    # at most 5 stores per location (MAX_ATOMIC_HISTORY carve-out)
    for l in locs:
        if sum(1 for th in threads for i in th if i["o"] == l and i["op"] in ("st", "rmw", "cas")) > 5:
            return random_litmus(rng, max_threads, max_ops, sc_access)
    return wrap(threads, locs, name="rand", tags=["litmus", "random"])


def q_mo(p):
    """Quarantine predicate of the open findings F3/F4 (lazily ordered modification order):
    some location is written by two different threads and at least one of those writes is a
    plain store."""
    writers = {}
    for t, th in enumerate(p["threads"]):
        for i in th:
            if i["op"] in ("st", "rmw", "cas", "wmut"):
                writers.setdefault(i["o"], {}).setdefault(t, set()).add(i["op"])
    for x, w in writers.items():
        if len(w) >= 2 and any("st" in ops or "wmut" in ops for ops in w.values()):
            return True
    return False


def litmus(tier, seed, avoid=()):
    """enumerated core + seeded random tail; `avoid`: quarantine predicates applied to the tail only"""
    rng = random.Random(seed * 7919 + 1)
    progs = litmus_shapes()
    n_rand = 60 if tier == "quick" else 600
    if tier == "thorough":
        progs += litmus_thorough_shapes()
    k = 0
    while k < n_rand:
        p = random_litmus(rng, max_ops=6 if tier == "quick" else 7)
        if any(q(p) for q in avoid):
            continue
        p["name"] = f"rand{k}"
        progs.append(p)
        k += 1
    return [normalize(p) for p in progs]


# ============================================================================================
# Synchronisation-primitive programs: a well-formed random generator shared by several families
# ============================================================================================
class TB:
    """Builder of one thread's code; tracks the register count for `br`."""
    def __init__(self, t):
        self.t = t
        self.code = []
        self.nregs = 0

    def add(self, ins):
        self.code.append(ins)
        if ins["op"] in RET_OPS:
            self.nregs += 1
        return self.nregs

    def guarded(self, try_ins, body, unlock_ins):
        """try_ins; if it returned 1 { body; unlock }"""
        r = self.add(try_ins)
        inner = body + [unlock_ins]
        self.code.append(br(r, 1, len(inner)))
        for i in inner:
            self.add(i)


class SyncGen:
    """Random well-formed programs over the blocking primitives.
    feats: subset of {"atom","mutex","try","rw","cv","chan","park","notify","arc","cell","yield"}"""
    def __init__(self, rng, feats, nspawn, max_ops, sc_atoms=True, leak_free=True, safe=True):
        """safe=True: do not draw the triggers of the open findings (quarantine, DESIGN.md §8):
        F3/F4 a location written by two threads one of them with a plain store; F5/F8/F10 unpark of a
        thread that can block elsewhere than in park; F11 a send after the receiver was dropped."""
        self.rng, self.feats, self.nspawn, self.max_ops = rng, set(feats), nspawn, max_ops
        self.sc_atoms = sc_atoms
        self.leak_free = leak_free
        self.safe = safe
        self.nextv = {}
        self.total = 0
        # per atomic: "owner:<t>" (only thread t writes) or "rmw" (everybody writes, RMWs only)
        self.policy = {x: rng.choice(["rmw"] + [f"owner:{t}" for t in range(1, nspawn + 2)]) for x in ("x", "y")}
        self.cur_t = 1

    def val(self, o):
        self.nextv[o] = self.nextv.get(o, 0) + 1
        return self.nextv[o]

    def atom_op(self):
        rng = self.rng
        x = rng.choice(["x", "y"])
        o = "sc" if self.sc_atoms else None
        k = rng.choice(["ld", "ld", "st", "st", "swap", "cas"])
        if self.safe:
            pol = self.policy[x]
            if pol == "rmw" and k == "st":
                k = "swap"
            elif pol.startswith("owner:") and int(pol[6:]) != self.cur_t:
                k = "ld"
        if k == "ld":
            return ld(x, o or rng.choice(LD_ORDS))
        if k == "st":
            return st(x, self.val(x), o or rng.choice(ST_ORDS))
        if k == "swap":
            return swap(x, self.val(x), o or rng.choice(RMW_ORDS))
        exp = rng.choice([0, max(0, self.nextv.get(x, 0))])
        so = o or rng.choice(RMW_ORDS)
        return cas(x, exp, self.val(x), so, "sc" if o else "rlx")

    def inner_ops(self, tb, m, k):
        """up to k ops executed while holding mutex m"""
        rng, out = self.rng, []
        for _ in range(k):
            c = []
            if "cell" in self.feats: c.append("cell")
            if "atom" in self.feats: c.append("atom")
            if "cv" in self.feats: c += ["cvwait", "cvnotify"]
            if "chan" in self.feats: c.append("send")
            if not c:
                break
            w = rng.choice(c)
            if w == "cell": out.append(wr("c_" + m))
            elif w == "atom": out.append(self.atom_op())
            elif w == "cvwait": out.append(I("cvwait", "cv", o2=m))
            elif w == "cvnotify": out.append(I(rng.choice(["notify1", "notifyall"]), "cv"))
            elif w == "send": out.append(I("send", "ch", v=self.val("ch")))
        return out

    def gen(self):
        rng = self.rng
        n = self.nspawn
        tbs = {t: TB(t) for t in range(1, n + 2)}
        main = tbs[1]
        # roles
        receiver = rng.randint(1, n + 1)
        waiter = rng.randint(1, n + 1)      # the single thread allowed to nwait
        # per-thread op budgets: every spawned thread gets at least one block
        share = max(1, self.max_ops // (n + 1))
        tbudget = {t: share + (1 if rng.random() < 0.5 else 0) for t in range(2, n + 2)}
        tbudget[1] = rng.choice([0, 0, 1, share])
        per = {t: 3 for t in range(1, n + 2)}
        # arcs: one handle per thread
        arc_threads = []
        if "arc" in self.feats:
            arc_threads = [t for t in range(1, n + 2) if rng.random() < 0.7]
            if len(arc_threads) < 2:
                arc_threads = [1, 2]
        dropped = set()
        order = list(range(2, n + 2)) + [1]
        if self.safe:
            receiver = 1
        for t in order:
            tb = tbs[t]
            self.cur_t = t
            blocks = per[t]
            for _ in range(blocks):
                if len(tb.code) >= tbudget[t]:
                    break
                c = []
                if "atom" in self.feats: c += ["atom", "atom"]
                if "mutex" in self.feats: c += ["mutex", "mutex"]
                if "try" in self.feats: c.append("trylock")
                if "rw" in self.feats: c += ["read", "write", "tryrw"]
                if "cv" in self.feats and "mutex" in self.feats: c += ["cvnotify"]
                if "chan" in self.feats:
                    c.append("send")
                    if t == receiver: c += ["recv", "tryrecv", "tryrecv"]
                if "park" in self.feats:
                    c.append("park")
                    c.append("unpark")
                if "notify" in self.feats:
                    c.append("notify")
                    if t == waiter: c.append("nwait")
                if "arc" in self.feats and t in arc_threads and t not in dropped: c += ["acount", "aclone", "agetmut"]
                if "cell" in self.feats and "mutex" not in self.feats and "rw" not in self.feats: c.append("cell")
                if "yield" in self.feats: c.append("yield")
                w = rng.choice(c)
                before = len(tb.code)
                if w == "atom":
                    tb.add(self.atom_op())
                elif w == "mutex":
                    m = rng.choice(["m", "m", "n"])
                    tb.add(I("lock", m))
                    for i in self.inner_ops(tb, m, rng.choice([0, 1, 1, 2])):
                        tb.add(i)
                    tb.add(I("unlock", m))
                elif w == "trylock":
                    m = rng.choice(["m", "n"])
                    tb.guarded(I("trylock", m), self.inner_ops(tb, m, rng.choice([0, 1])), I("unlock", m))
                elif w == "read":
                    tb.add(I("read", "l"))
                    if "cell" in self.feats: tb.add(rd("c_l"))
                    tb.add(I("unlockr", "l"))
                elif w == "write":
                    tb.add(I("write", "l"))
                    if "cell" in self.feats: tb.add(wr("c_l"))
                    tb.add(I("unlockw", "l"))
                elif w == "tryrw":
                    if rng.random() < 0.5:
                        tb.guarded(I("tryread", "l"), [rd("c_l")] if "cell" in self.feats else [], I("unlockr", "l"))
                    else:
                        tb.guarded(I("trywrite", "l"), [wr("c_l")] if "cell" in self.feats else [], I("unlockw", "l"))
                elif w == "cvnotify":
                    tb.add(I(rng.choice(["notify1", "notifyall"]), "cv"))
                elif w == "send":
                    tb.add(I("send", "ch", v=self.val("ch")))
                elif w == "recv":
                    tb.add(I("recv", "ch"))
                elif w == "tryrecv":
                    tb.add(I("tryrecv", "ch"))
                elif w == "park":
                    tb.add(I("park"))
                elif w == "unpark":
                    targets = [1] + [j for j in range(2, t)] if t != 1 else list(range(2, n + 2))
                    if self.safe:
                        # only threads generated so far (lower index) that block nowhere but in park
                        targets = [j for j in targets if j != 1 and j in tbs and j < t or (t == 1 and j != 1)]
                        targets = [j for j in targets if not any(i["op"] in BLOCKING_OPS - {"park"} for i in tbs[j].code)]
                    if targets:
                        tb.add(unpark(rng.choice(targets)))
                elif w == "notify":
                    tb.add(I("notify", "nt"))
                elif w == "nwait":
                    tb.add(I("nwait", "nt"))
                elif w == "acount":
                    tb.add(I("acount", f"a{t}"))
                elif w == "agetmut":
                    tb.add(I("agetmut", f"a{t}"))
                elif w == "aclone":
                    tb.add(I("aclone", f"a{t}", o2=f"b{t}"))
                    if rng.random() < 0.5: tb.add(I("acount", f"b{t}"))
                    tb.add(I("adrop", f"b{t}"))
                elif w == "cell":
                    tb.add(rng.choice([rd("c"), wr("c")]))
                elif w == "yield":
                    tb.add(I("yield"))
                self.total += len(tb.code) - before
            if "arc" in self.feats and t in arc_threads and t != 1:
                tb.add(I("adrop", f"a{t}"))
                dropped.add(t)
        # main: spawn all first, then its own ops, then joins, then release/final reads
        own = main.code
        code = [spawn(t) for t in range(2, n + 2)] + own + [join(t) for t in range(2, n + 2)]
        if "arc" in self.feats and 1 in arc_threads:
            if rng.random() < 0.3:
                code.append(I("aunwrap", "a1"))   # after all joins: succeeds iff every other handle is gone
            else:
                code.append(I("acount", "a1"))
                code.append(I("adrop", "a1"))
        if "chan" in self.feats and self.leak_free:
            if receiver == 1:
                code.append(I("droprx", "ch"))
            else:
                pass
        if "atom" in self.feats:
            code += [ld("x", "sc" if self.sc_atoms else "rlx"), ld("y", "sc" if self.sc_atoms else "rlx")]
        threads = [code] + [tbs[t].code for t in range(2, n + 2)]
        if "chan" in self.feats and self.leak_free and receiver != 1:
            threads[receiver - 1].append(I("droprx", "ch"))
        p = {"threads": threads, "tags": ["sync"]}
        if "arc" in self.feats:
            p["arcs"] = {"A": {"h0": [f"a{t}" for t in arc_threads], "cell": ""}}
        return p


def fix_main_regs(p):
    return p


def gen_sync(rng, feats, nspawn, max_ops, tries=50, **kw):
    for _ in range(tries):
        g = SyncGen(rng, feats, nspawn, max_ops, **kw)
        p = g.gen()
        if sum(len(t) for t in p["threads"][1:]) >= 2:
            return p
    return p


def syncmix(tier, seed, avoid=()):
    """C01: every mix of object kinds (SeqCst atomics)"""
    rng = random.Random(seed * 104729 + 3)
    progs = []
    mixes = [["atom", "mutex"], ["atom", "mutex", "try"], ["atom", "rw", "try"], ["chan", "atom"], ["chan", "park"],
             ["park", "atom"], ["notify", "atom"], ["mutex", "cv"], ["mutex", "cv", "atom"], ["arc", "atom"],
             ["arc", "mutex"], ["atom", "mutex", "chan", "park", "notify"], ["atom"], ["chan", "notify", "mutex"],
             ["rw", "atom", "mutex"], ["yield", "atom", "mutex"]]
    per = 6 if tier == "quick" else 60
    for feats in mixes:
        k = 0
        while k < per:
            nspawn = rng.choice([2, 2, 2, 3]) if tier == "thorough" else rng.choice([2, 2, 2, 3])
            p = gen_sync(rng, feats, nspawn, 6 if nspawn == 3 else 7)
            if any(q(p) for q in avoid):
                continue
            p["name"] = "+".join(feats) + f"#{k}"
            progs.append(p)
            k += 1
    return [normalize(p) for p in progs]


# ------------------------------------------------------------------ waivers for open findings
def ops_of(p):
    return {i["op"] for th in p["threads"] for i in th}


def waived(p):
    """Parts of the comparison that are NOT applied to program p because an open finding
    (known_findings.json / DESIGN.md §8) would fire.  Returns {want-name: finding id}."""
    ops = ops_of(p)
    w = {}
    if ops & {"trylock", "tryread", "trywrite"}:
        w["complete"] = "F13"       # a failing try_* is only seen if the holder is preempted inside its critical section
    if "tryrecv" in ops:
        w["complete"] = "F9"        # try_recv on an empty channel is no branch point
    if ops & {"acount", "agetmut", "aunwrap"}:
        w["complete"] = "F14"       # Arc inspections: single last-access slot per class
    return w
