"""Program families (DESIGN.md §6).  Deterministic enumerations plus a seeded random tail."""
import itertools, random
from dsl import *


def wrap(spawned, finals=(), name="", main_pre=(), main_post=(), tags=()):
    """main = pre; spawn all; join all; post; final relaxed loads"""
    n = len(spawned)
    main = list(main_pre) + [spawn(t) for t in range(2, n + 2)] + [join(t) for t in range(2, n + 2)]
    main += list(main_post) + [ld(x) for x in finals]
    p = {"threads": [main] + [list(t) for t in spawned], "name": name, "tags": list(tags)}
    return p


def has_sc_access(p):
    return any(i["op"] in ("ld", "st", "rmw", "cas", "await") and "sc" in (i["ord"], i["ord2"])
               for th in p["threads"] for i in th)


def n_ops(p):
    return sum(len(t) for t in p["threads"][1:])


LD_ORDS = ["rlx", "acq", "sc"]
ST_ORDS = ["rlx", "rel", "sc"]
RMW_ORDS = ["rlx", "acq", "rel", "acqrel", "sc"]
F_ORDS = ["acq", "rel", "acqrel", "sc"]


def litmus_shapes():
    out = []

    def add(name, spawned, finals=()):
        out.append(wrap(spawned, finals, name=name, tags=["litmus"]))

    # message passing
    for w, r in itertools.product(ST_ORDS, LD_ORDS):
        add(f"MP[{w},{r}]", [[st("y", 1), st("x", 1, w)], [ld("x", r), ld("y")]])
    for f1, f2 in itertools.product(["rel", "acqrel", "sc"], ["acq", "acqrel", "sc"]):
        add(f"MP+fences[{f1},{f2}]", [[st("y", 1), fence(f1), st("x", 1)], [ld("x"), fence(f2), ld("y")]])
    add("MP+relfence+acqload", [[st("y", 1), fence("rel"), st("x", 1)], [ld("x", "acq"), ld("y")]])
    add("MP+relstore+acqfence", [[st("y", 1), st("x", 1, "rel")], [ld("x"), fence("acq"), ld("y")]])
    add("MP+wrongfence", [[st("y", 1), fence("acq"), st("x", 1)], [ld("x"), fence("rel"), ld("y")]])
    # store buffering
    for (w1, r1), (w2, r2) in itertools.product([("rlx", "rlx"), ("rel", "acq"), ("sc", "sc")], repeat=2):
        add(f"SB[{w1},{r1};{w2},{r2}]", [[st("x", 1, w1), ld("y", r1)], [st("y", 1, w2), ld("x", r2)]])
    for f1, f2 in itertools.product(["acqrel", "sc"], repeat=2):
        add(f"SB+fences[{f1},{f2}]", [[st("x", 1), fence(f1), ld("y")], [st("y", 1), fence(f2), ld("x")]])
    # load buffering (the po u rf cycle is excluded by the machine itself)
    for r, w in [("rlx", "rlx"), ("acq", "rel")]:
        add(f"LB[{r},{w}]", [[ld("x", r), st("y", 1, w)], [ld("y", r), st("x", 1, w)]])
    # coherence
    add("CoRR", [[st("x", 1)], [st("x", 2)], [ld("x"), ld("x")]], ["x"])
    add("CoRR-acq", [[st("x", 1, "rel")], [st("x", 2, "rel")], [ld("x", "acq"), ld("x", "acq")]], ["x"])
    add("CoWR", [[st("x", 1), ld("x")], [st("x", 2)]], ["x"])
    add("CoRW", [[ld("x"), st("x", 1)], [st("x", 2)]], ["x"])
    add("CoWW", [[st("x", 1), st("x", 2)], [ld("x"), ld("x")]], ["x"])
    add("C03-example", [[st("y", 1), st("y", 2)], [st("y", 3), ld("y")]], ["y"])
    add("C03-example-3w", [[st("y", 1), st("y", 2)], [st("y", 3), ld("y")], [ld("y"), ld("y")]], ["y"])
    add("C01-example", [[st("x", 1, "sc"), ld("x", "sc")], [ld("x", "sc"), st("x", 2, "sc")]], ["x"])
    add("C01-example-rlx", [[st("x", 1), ld("x")], [ld("x"), st("x", 2)]], ["x"])
    add("2+2W", [[st("x", 1), st("y", 2)], [st("y", 1), st("x", 2)]], ["x", "y"])
    add("2+2W-rel", [[st("x", 1, "rel"), st("y", 2, "rel")], [st("y", 1, "rel"), st("x", 2, "rel")]], ["x", "y"])
    # RMWs
    for o in ["rlx", "acqrel", "sc"]:
        add(f"swap-swap[{o}]", [[swap("x", 1, o)], [swap("x", 2, o)]], ["x"])
        add(f"st-swap[{o}]", [[st("x", 1)], [swap("x", 2, o)]], ["x"])
        add(f"fadd-fadd-ld[{o}]", [[fadd("x", 10, o)], [fadd("x", 20, o)], [ld("x")]], ["x"])
    add("st-st-swap", [[st("x", 1), st("x", 2)], [swap("x", 3)]], ["x"])
    add("swap-ld-ld", [[st("x", 1)], [swap("x", 2)], [ld("x"), ld("x")]], ["x"])
    for s, f in [("rlx", "rlx"), ("acqrel", "acq"), ("sc", "sc"), ("rel", "rlx")]:
        add(f"cas-cas[{s},{f}]", [[cas("x", 0, 1, s, f)], [cas("x", 0, 2, s, f)]], ["x"])
    add("cas-st", [[cas("x", 0, 1)], [st("x", 2)]], ["x"])
    add("cas-chain", [[cas("x", 0, 1, "acqrel", "acq")], [cas("x", 1, 2, "acqrel", "acq")], [ld("x", "acq")]], ["x"])
    # release sequences
    add("relseq-rmw", [[st("y", 1), st("x", 1, "rel")], [fadd("x", 10)], [ld("x", "acq"), ld("y")]])
    add("relseq-rmw-acqrel", [[st("y", 1), st("x", 1, "rel")], [fadd("x", 10, "acqrel")], [ld("x", "acq"), ld("y")]])
    add("relseq-samethread", [[st("y", 1), st("x", 1, "rel"), st("x", 2)], [ld("x", "acq"), ld("y")]])
    add("relseq-broken", [[st("y", 1), st("x", 1, "rel")], [st("x", 2)], [ld("x", "acq"), ld("y")]])
    add("relfence-relseq", [[st("y", 1), fence("rel"), st("x", 1), st("x", 2)], [ld("x", "acq"), ld("y")]])
    # multi-hop
    for w, r, w2, r2 in [("rel", "acq", "rel", "acq"), ("rel", "rlx", "rel", "acq"), ("rlx", "rlx", "rlx", "rlx"),
                         ("rel", "acq", "rlx", "acq"), ("sc", "sc", "sc", "sc")]:
        add(f"WRC[{w},{r},{w2},{r2}]", [[st("x", 1, w)], [ld("x", r), st("y", 1, w2)], [ld("y", r2), ld("x")]])
    add("C02-example", [[st("y", 1), st("x", 1, "rel")], [ld("x"), st("z", 1, "rel")],
                        [ld("z", "acq"), fence("acq"), ld("y")]])
    add("ISA2", [[st("x", 1), st("y", 1, "rel")], [ld("y", "acq"), st("z", 1, "rel")], [ld("z", "acq"), ld("x")]])
    add("ISA2-rlxmid", [[st("x", 1), st("y", 1, "rel")], [ld("y"), st("z", 1, "rel")], [ld("z", "acq"), ld("x")]])
    # SC fences
    add("RWC+scfences", [[st("x", 1)], [ld("x"), fence("sc"), ld("y")], [st("y", 1), fence("sc"), ld("x")]])
    add("W+RWC", [[st("x", 1), st("z", 1, "rel")], [ld("z", "acq"), fence("sc"), ld("y")],
                  [st("y", 1), fence("sc"), ld("x")]])
    add("fence-mo", [[st("x", 1), fence("sc"), ld("y")], [st("y", 1), fence("sc"), st("x", 2)]], ["x"])
    return out


def litmus_thorough_shapes():
    out = []

    def add(name, spawned, finals=()):
        out.append(wrap(spawned, finals, name=name, tags=["litmus", "big"]))
    for r in ["rlx", "acq", "sc"]:
        w = {"rlx": "rlx", "acq": "rel", "sc": "sc"}[r]
        add(f"IRIW[{r}]", [[st("x", 1, w)], [st("y", 1, w)], [ld("x", r), ld("y", r)], [ld("y", r), ld("x", r)]])
    add("IRIW+scfences", [[st("x", 1)], [st("y", 1)], [ld("x"), fence("sc"), ld("y")], [ld("y"), fence("sc"), ld("x")]])
    add("CoRR2", [[st("x", 1)], [st("x", 2)], [ld("x"), ld("x")], [ld("x"), ld("x")]], ["x"])
    add("3W", [[st("x", 1)], [st("x", 2)], [st("x", 3), ld("x")]], ["x"])
    return out


def random_litmus(rng, max_threads=3, max_ops=6, sc_access=True):
    nt = rng.choice([2, 2, 3]) if max_threads >= 3 else 2
    locs = ["x", "y", "z"][: rng.choice([1, 2, 2, 3])]
    nextv = {l: 1 for l in locs}
    addv = {l: 10 for l in locs}
    total = 0
    threads = []
    budget = max_ops if nt == 2 else min(max_ops, 6)
    for t in range(nt):
        n = rng.choice([1, 2, 2, 3])
        th = []
        for _ in range(n):
            if total >= budget:
                break
            op = rng.choice(["ld", "ld", "ld", "st", "st", "st", "swap", "add", "cas", "fence"])
            if op == "fence":
                th.append(fence(rng.choice(F_ORDS)))
            else:
                x = rng.choice(locs)
                if op == "ld":
                    th.append(ld(x, rng.choice(LD_ORDS if sc_access else LD_ORDS[:2])))
                elif op == "st":
                    th.append(st(x, nextv[x], rng.choice(ST_ORDS if sc_access else ST_ORDS[:2])))
                    nextv[x] += 1
                elif op == "swap":
                    th.append(swap(x, nextv[x], rng.choice(RMW_ORDS if sc_access else RMW_ORDS[:4])))
                    nextv[x] += 1
                elif op == "add":
                    th.append(fadd(x, addv[x], rng.choice(RMW_ORDS if sc_access else RMW_ORDS[:4])))
                    addv[x] *= 2
                elif op == "cas":
                    exp = rng.choice([0] + list(range(1, nextv[x])))
                    s = rng.choice(RMW_ORDS if sc_access else RMW_ORDS[:4])
                    f = rng.choice({"rlx": ["rlx"], "acq": ["rlx", "acq"], "rel": ["rlx"], "acqrel": ["rlx", "acq"],
                                    "sc": ["rlx", "acq", "sc"]}[s])
                    th.append(cas(x, exp, nextv[x], s, f))
                    nextv[x] += 1
            total += 1
        if th:
            threads.append(th)
    if len(threads) < 2 or all(i["op"] == "fence" for th in threads for i in th):
        return random_litmus(rng, max_threads, max_ops, sc_access)
    # at most 5 stores per location (MAX_ATOMIC_HISTORY carve-out)
    for l in locs:
        if sum(1 for th in threads for i in th if i["o"] == l and i["op"] in ("st", "rmw", "cas")) > 5:
            return random_litmus(rng, max_threads, max_ops, sc_access)
    return wrap(threads, locs, name="rand", tags=["litmus", "random"])


def q_mo(p):
    """Quarantine predicate of the open findings F3/F4 (lazily ordered modification order):
    some location is written by two different threads and at least one of those writes is a
    plain store."""
    writers = {}
    for t, th in enumerate(p["threads"]):
        for i in th:
            if i["op"] in ("st", "rmw", "cas", "wmut"):
                writers.setdefault(i["o"], {}).setdefault(t, set()).add(i["op"])
    for x, w in writers.items():
        if len(w) >= 2 and any("st" in ops or "wmut" in ops for ops in w.values()):
            return True
    return False


def litmus(tier, seed, avoid=()):
    """enumerated core + seeded random tail; `avoid`: quarantine predicates applied to the tail only"""
    rng = random.Random(seed * 7919 + 1)
    progs = litmus_shapes()
    n_rand = 60 if tier == "quick" else 600
    if tier == "thorough":
        progs += litmus_thorough_shapes()
    k = 0
    while k < n_rand:
        p = random_litmus(rng, max_ops=6 if tier == "quick" else 7)
        if any(q(p) for q in avoid):
            continue
        p["name"] = f"rand{k}"
        progs.append(p)
        k += 1
    return [normalize(p) for p in progs]
