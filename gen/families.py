"""Program families (DESIGN.md §6).  Deterministic enumerations plus a seeded random tail."""
import itertools, random
from dsl import *


def wrap(spawned, finals=(), name="", main_pre=(), main_post=(), tags=()):
    """main = pre; spawn all; join all; post; final relaxed loads"""
    n = len(spawned)
    main = list(main_pre) + [spawn(t) for t in range(2, n + 2)] + [join(t) for t in range(2, n + 2)]
    main += list(main_post) + [ld(x) for x in finals]
    p = {"threads": [main] + [list(t) for t in spawned], "name": name, "tags": list(tags)}
    return p


def has_sc_access(p):
    return any(i["op"] in ("ld", "st", "rmw", "cas", "await") and "sc" in (i["ord"], i["ord2"])
               for th in p["threads"] for i in th)


def n_ops(p):
    return sum(len(t) for t in p["threads"][1:])


LD_ORDS = ["rlx", "acq", "sc"]
ST_ORDS = ["rlx", "rel", "sc"]
RMW_ORDS = ["rlx", "acq", "rel", "acqrel", "sc"]
F_ORDS = ["acq", "rel", "acqrel", "sc"]


def litmus_shapes():
    out = []

    def add(name, spawned, finals=()):
        out.append(wrap(spawned, finals, name=name, tags=["litmus"]))

    # message passing
    for w, r in itertools.product(ST_ORDS, LD_ORDS):
        add(f"MP[{w},{r}]", [[st("y", 1), st("x", 1, w)], [ld("x", r), ld("y")]])
    for f1, f2 in itertools.product(["rel", "acqrel", "sc"], ["acq", "acqrel", "sc"]):
        add(f"MP+fences[{f1},{f2}]", [[st("y", 1), fence(f1), st("x", 1)], [ld("x"), fence(f2), ld("y")]])
    # SeqCst data, relaxed flag: a SeqCst load may still read a store that is mo-before an executed SeqCst store
    add("MP-scdata", [[st("x", 1, "sc"), st("y", 1)], [ld("y"), ld("x", "sc")]])
    add("MP-scdata-2st", [[st("x", 1), st("x", 2, "sc"), st("y", 1)], [ld("y"), ld("x", "sc")]], ["x"])
    add("MP-scdata-acqflag", [[st("x", 1, "sc"), st("y", 1, "rel")], [ld("y", "acq"), ld("x", "sc")]])
    add("sc-load-rlx-store", [[st("x", 1), st("y", 1, "sc")], [ld("y", "sc"), ld("x", "sc")]])
    add("MP+relfence+acqload", [[st("y", 1), fence("rel"), st("x", 1)], [ld("x", "acq"), ld("y")]])
    add("MP+relstore+acqfence", [[st("y", 1), st("x", 1, "rel")], [ld("x"), fence("acq"), ld("y")]])
    add("MP+wrongfence", [[st("y", 1), fence("acq"), st("x", 1)], [ld("x"), fence("rel"), ld("y")]])
    # a spawn in the middle of the program: the child starts from what its parent has SEEN (spawn edge), it does not
    # inherit the parent's release fence (its relaxed stores publish nothing) nor anything the parent does afterwards
    for f in ["rel", "acqrel", "sc"]:
        out.append({"threads": [[spawn(2), st("y", 1), fence(f), spawn(3), join(2), join(3)], [ld("x", "acq"), ld("y")], [st("x", 1)]],
                    "name": f"spawn-after-fence[{f}]", "tags": ["litmus"]})
    out.append({"threads": [[spawn(2), st("y", 1, "rel"), spawn(3), join(2), join(3)], [ld("x", "acq"), ld("y")], [st("x", 1)]],
                "name": "spawn-after-relstore", "tags": ["litmus"]})
    out.append({"threads": [[spawn(2), st("y", 1), spawn(3), st("y", 2), join(2), join(3)], [ld("x", "acq"), ld("y")], [st("x", 1, "rel")]],
                "name": "spawn-edge-publishes-earlier-writes-only", "tags": ["litmus"]})
    out.append({"threads": [[spawn(2), ld("y", "acq"), fence("acq"), spawn(3), join(2), join(3)], [st("z", 1), st("y", 1, "rel")], [ld("z")]],
                "name": "spawn-after-acquire", "tags": ["litmus"]})
    # two SeqCst fences in threads that share no location, a third thread reads: a fence releases what its OWN thread has seen
    # up to the fence, not what an SC-earlier fence of another thread had seen (fences are no scheduling points: loom runs them
    # in one order only, all outcomes must come out of that order)
    for rd_in_main in (False, True):
        t1 = [st("a", 1), fence("sc"), st("c", 1)]
        t2 = [fence("sc"), st("b", 1)]
        rdr = [ld("c"), ld("b", "acq"), ld("a")]
        for order in ((t1, t2), (t2, t1)):
            if rd_in_main:
                out.append({"threads": [[spawn(2), spawn(3)] + rdr + [join(2), join(3)], list(order[0]), list(order[1])],
                            "name": f"sc-fences-3loc-main[{'12' if order[0] is t1 else '21'}]", "tags": ["litmus"]})
            else:
                add(f"sc-fences-3loc[{'12' if order[0] is t1 else '21'}]", [list(order[0]), list(order[1]), rdr])
    add("sc-fence-then-acqrel-fence-3loc", [[st("a", 1), fence("sc"), st("c", 1)], [fence("acqrel"), st("b", 1)], [ld("c"), ld("b", "acq"), ld("a")]])
    add("sc-fences-3loc-rel-stores", [[st("a", 1), fence("sc"), st("c", 1, "rel")], [fence("sc"), st("b", 1, "rel")], [ld("c", "acq"), ld("b", "acq"), ld("a")]])
    # store buffering
    for (w1, r1), (w2, r2) in itertools.product([("rlx", "rlx"), ("rel", "acq"), ("sc", "sc")], repeat=2):
        add(f"SB[{w1},{r1};{w2},{r2}]", [[st("x", 1, w1), ld("y", r1)], [st("y", 1, w2), ld("x", r2)]])
    for f1, f2 in itertools.product(["acqrel", "sc"], repeat=2):
        add(f"SB+fences[{f1},{f2}]", [[st("x", 1), fence(f1), ld("y")], [st("y", 1), fence(f2), ld("x")]])
    # ... with a bystander's SeqCst fence that may fall between the two that matter: the SC order is total and cumulative over
    # ALL fences of the execution, not only over neighbours
    sb1, sb2 = [st("x", 1), fence("sc"), ld("y")], [st("y", 1), fence("sc"), ld("x")]
    for nm, by in [("fence", [fence("sc")]), ("2fences", [fence("sc"), fence("sc")]), ("fence-after-load", [ld("z"), fence("sc")]),
                   ("store-fence", [st("z", 1), fence("sc")])]:
        add(f"SB+scfences+bystander-{nm}[first]", [by, sb1, sb2])
        add(f"SB+scfences+bystander-{nm}[mid]", [sb1, by, sb2])
        add(f"SB+scfences+bystander-{nm}[last]", [sb1, sb2, by])
    out.append({"threads": [[spawn(2), spawn(3), fence("sc"), join(2), join(3)], sb1, sb2], "name": "SB+scfences+bystander-main", "tags": ["litmus"]})
    out.append({"threads": [[spawn(2), spawn(3), ld("z"), fence("sc"), join(2), join(3)], sb1, sb2], "name": "SB+scfences+bystander-main-late", "tags": ["litmus"]})
    out.append({"threads": [[spawn(2), spawn(3), spawn(4), ld("z"), fence("sc"), join(2), join(3), join(4)], sb1, [fence("sc")], sb2],
                "name": "SB+scfences+2bystanders", "tags": ["litmus"]})
    # SeqCst LOADS of an unrelated location between the relaxed accesses of message passing: a SeqCst load is no fence - it
    # orders nothing with another thread's SeqCst load or SeqCst fence, the stale read (1,0) stays possible
    add("MP+scloads-unrelated", [[st("x", 1), ld("z", "sc"), st("y", 1)], [ld("y"), ld("z", "sc"), ld("x")]])
    add("MP+scfence-writer+scload-reader", [[st("x", 1), fence("sc"), st("y", 1)], [ld("y"), ld("z", "sc"), ld("x")]])
    add("MP+scload-writer+scfence-reader", [[st("x", 1), ld("z", "sc"), st("y", 1)], [ld("y"), fence("sc"), ld("x")]])
    add("MP+sccas-fails-unrelated", [[st("x", 1), cas("z", 5, 6, "sc", "sc"), st("y", 1)], [ld("y"), cas("z", 5, 6, "sc", "sc"), ld("x")]])
    add("MP+scloads-unrelated-3", [[st("x", 1), ld("z", "sc"), st("y", 1)], [ld("w", "sc")], [ld("y"), ld("z", "sc"), ld("x")]])
    # load buffering (the po u rf cycle is excluded by the machine itself)
    for r, w in [("rlx", "rlx"), ("acq", "rel")]:
        add(f"LB[{r},{w}]", [[ld("x", r), st("y", 1, w)], [ld("y", r), st("x", 1, w)]])
    # coherence
    # read-read coherence carried over happens-before, with the publishing thread looking at the store AGAIN afterwards
    add("CoRR-hb-reread", [[st("x", 1)], [ld("x"), br(1, 1, 2), st("y", 1, "rel"), ld("x")], [ld("y", "acq"), ld("x")]])
    add("CoRR-hb-recas", [[st("x", 1)], [ld("x"), br(1, 1, 2), st("y", 1, "rel"), cas("x", 5, 6)], [ld("y", "acq"), ld("x")]])
    add("CoRR-hb-refadd", [[st("x", 1)], [ld("x"), br(1, 1, 2), st("y", 1, "rel"), ld("x"), ld("x")], [ld("y", "acq"), ld("x"), ld("x")]])
    add("CoRR-hb-reread-fence", [[st("x", 1)], [ld("x"), br(1, 1, 3), fence("rel"), st("y", 1), ld("x")], [ld("y"), fence("acq"), ld("x")]])
    add("CoRR", [[st("x", 1)], [st("x", 2)], [ld("x"), ld("x")]], ["x"])
    add("CoRR-acq", [[st("x", 1, "rel")], [st("x", 2, "rel")], [ld("x", "acq"), ld("x", "acq")]], ["x"])
    add("CoWR", [[st("x", 1), ld("x")], [st("x", 2)]], ["x"])
    add("CoRW", [[ld("x"), st("x", 1)], [st("x", 2)]], ["x"])
    add("CoWW", [[st("x", 1), st("x", 2)], [ld("x"), ld("x")]], ["x"])
    add("C03-example", [[st("y", 1), st("y", 2)], [st("y", 3), ld("y")]], ["y"])
    add("C03-example-3w", [[st("y", 1), st("y", 2)], [st("y", 3), ld("y")], [ld("y"), ld("y")]], ["y"])
    add("C01-example", [[st("x", 1, "sc"), ld("x", "sc")], [ld("x", "sc"), st("x", 2, "sc")]], ["x"])
    add("C01-example-rlx", [[st("x", 1), ld("x")], [ld("x"), st("x", 2)]], ["x"])
    add("2+2W", [[st("x", 1), st("y", 2)], [st("y", 1), st("x", 2)]], ["x", "y"])
    add("2+2W-rel", [[st("x", 1, "rel"), st("y", 2, "rel")], [st("y", 1, "rel"), st("x", 2, "rel")]], ["x", "y"])
    # RMWs
    for o in ["rlx", "acqrel", "sc"]:
        add(f"swap-swap[{o}]", [[swap("x", 1, o)], [swap("x", 2, o)]], ["x"])
        add(f"st-swap[{o}]", [[st("x", 1)], [swap("x", 2, o)]], ["x"])
        add(f"fadd-fadd-ld[{o}]", [[fadd("x", 10, o)], [fadd("x", 20, o)], [ld("x")]], ["x"])
    add("st-st-swap", [[st("x", 1), st("x", 2)], [swap("x", 3)]], ["x"])
    add("swap-ld-ld", [[st("x", 1)], [swap("x", 2)], [ld("x"), ld("x")]], ["x"])
    for s, f in [("rlx", "rlx"), ("acqrel", "acq"), ("sc", "sc"), ("rel", "rlx")]:
        add(f"cas-cas[{s},{f}]", [[cas("x", 0, 1, s, f)], [cas("x", 0, 2, s, f)]], ["x"])
    add("cas-st", [[cas("x", 0, 1)], [st("x", 2)]], ["x"])
    # a FAILING compare_exchange synchronises with its failure ordering only
    for sf in [("acq", "rlx"), ("acqrel", "rlx"), ("sc", "rlx"), ("acq", "acq"), ("sc", "acq"), ("rel", "rlx")]:
        add(f"MP-casfail[{sf[0]},{sf[1]}]", [[st("y", 1), st("x", 1, "rel")], [cas("x", 0, 2, sf[0], sf[1]), ld("y")]])
        add(f"MP-casfail-fence[{sf[0]},{sf[1]}]", [[st("y", 1), fence("rel"), st("x", 1)], [cas("x", 0, 2, sf[0], sf[1]), ld("y")]])
    add("cas-chain", [[cas("x", 0, 1, "acqrel", "acq")], [cas("x", 1, 2, "acqrel", "acq")], [ld("x", "acq")]], ["x"])
    # release sequences
    add("relseq-rmw", [[st("y", 1), st("x", 1, "rel")], [fadd("x", 10)], [ld("x", "acq"), ld("y")]])
    add("relseq-rmw-acqrel", [[st("y", 1), st("x", 1, "rel")], [fadd("x", 10, "acqrel")], [ld("x", "acq"), ld("y")]])
    add("relseq-samethread", [[st("y", 1), st("x", 1, "rel"), st("x", 2)], [ld("x", "acq"), ld("y")]])
    add("relseq-broken", [[st("y", 1), st("x", 1, "rel")], [st("x", 2)], [ld("x", "acq"), ld("y")]])
    add("relfence-relseq", [[st("y", 1), fence("rel"), st("x", 1), st("x", 2)], [ld("x", "acq"), ld("y")]])
    # multi-hop
    for w, r, w2, r2 in [("rel", "acq", "rel", "acq"), ("rel", "rlx", "rel", "acq"), ("rlx", "rlx", "rlx", "rlx"),
                         ("rel", "acq", "rlx", "acq"), ("sc", "sc", "sc", "sc")]:
        add(f"WRC[{w},{r},{w2},{r2}]", [[st("x", 1, w)], [ld("x", r), st("y", 1, w2)], [ld("y", r2), ld("x")]])
    add("C02-example", [[st("y", 1), st("x", 1, "rel")], [ld("x"), st("z", 1, "rel")],
                        [ld("z", "acq"), fence("acq"), ld("y")]])
    add("ISA2", [[st("x", 1), st("y", 1, "rel")], [ld("y", "acq"), st("z", 1, "rel")], [ld("z", "acq"), ld("x")]])
    add("ISA2-rlxmid", [[st("x", 1), st("y", 1, "rel")], [ld("y"), st("z", 1, "rel")], [ld("z", "acq"), ld("x")]])
    # SC fences
    add("RWC+scfences", [[st("x", 1)], [ld("x"), fence("sc"), ld("y")], [st("y", 1), fence("sc"), ld("x")]])
    add("W+RWC", [[st("x", 1), st("z", 1, "rel")], [ld("z", "acq"), fence("sc"), ld("y")],
                  [st("y", 1), fence("sc"), ld("x")]])
    add("fence-mo", [[st("x", 1), fence("sc"), ld("y")], [st("y", 1), fence("sc"), st("x", 2)]], ["x"])
    # coherence through happens-before chains (the overwritten / overwriting store is known only via another thread)
    out.append(P("CoRW-hb", SJ(3) + JJ(3) + [ld("x")], [st("x", 1)], [ld("x"), st("y", 1, "rel")], [ld("y", "acq"), st("x", 2), ld("x")], tags=["litmus"]))
    out.append(P("CoWR-hb", SJ(3) + JJ(3) + [ld("x")], [st("x", 1), st("y", 1, "rel")], [ld("y", "acq"), ld("x")], [st("x", 2)], tags=["litmus"]))
    out.append(P("CoWW-hb", SJ(2) + JJ(2) + [ld("x")], [st("x", 1), st("y", 1, "rel")], [ld("y", "acq"), st("x", 2)], tags=["litmus"]))
    out.append(P("CoRR-hb", SJ(3) + JJ(3), [st("x", 1), st("x", 2)], [ld("x"), st("y", 1, "rel")], [ld("y", "acq"), ld("x")], tags=["litmus"]))
    out.append(P("CoRW-hb-fence", SJ(3) + JJ(3) + [ld("x")], [st("x", 1)], [ld("x"), fence("rel"), st("y", 1)], [ld("y"), fence("acq"), st("x", 2), ld("x")], tags=["litmus"]))
    # one fence used as both the acquire side and the release side of a two-hop hand-over
    for f in ("acqrel", "sc"):
        out.append(P(f"2hop-fence[{f}]", SJ(3) + JJ(3), [st("d", 1), st("x", 1, "rel")], [ld("x"), fence(f), st("y", 1)],
                     [ld("y", "acq"), ld("d")], tags=["litmus"]))
    out.append(P("2hop-fence-relonly", SJ(3) + JJ(3), [st("d", 1), st("x", 1, "rel")], [ld("x"), fence("rel"), st("y", 1)],
                 [ld("y", "acq"), ld("d")], tags=["litmus"]))
    add("F16-rmw-before-executed-store", [[st("z", 1), st("y", 1), ld("z")], [ld("y", "acq"), swap("z", 2, "rel")]], ["z"])
    return out


def litmus_thorough_shapes():
    out = []

    def add(name, spawned, finals=()):
        out.append(wrap(spawned, finals, name=name, tags=["litmus", "big"]))
    for r in ["rlx", "acq", "sc"]:
        w = {"rlx": "rlx", "acq": "rel", "sc": "sc"}[r]
        add(f"IRIW[{r}]", [[st("x", 1, w)], [st("y", 1, w)], [ld("x", r), ld("y", r)], [ld("y", r), ld("x", r)]])
    add("IRIW+scfences", [[st("x", 1)], [st("y", 1)], [ld("x"), fence("sc"), ld("y")], [ld("y"), fence("sc"), ld("x")]])
    add("CoRR2", [[st("x", 1)], [st("x", 2)], [ld("x"), ld("x")], [ld("x"), ld("x")]], ["x"])
    add("3W", [[st("x", 1)], [st("x", 2)], [st("x", 3), ld("x")]], ["x"])
    return out


def long_history_shapes():
    """more stores to one location than loom's store history holds (MAX_ATOMIC_HISTORY = 7): old values become
    unreadable (outside C02's proviso), but whatever IS returned must still be consistent (C03 has no such proviso)"""
    out = []
    for n in (7, 8, 9, 13, 15):
        w = [st("d", 1)] + [st("f", v, "rel") for v in range(1, n + 1)]
        out.append(wrap([w, [ld("f"), fence("acq"), ld("d")]], [], name=f"long-history-fence[{n}]", tags=["litmus"]))
        out.append(wrap([w, [ld("f", "acq"), ld("d")]], [], name=f"long-history-acqload[{n}]", tags=["litmus"]))
    for n in (8, 10):
        w = [st("d", 1)] + [st("f", v, "rel") for v in range(1, n + 1)]
        out.append(wrap([w, [ld("f"), ld("f"), fence("acqrel"), ld("d")]], [], name=f"long-history-2loads-fence[{n}]", tags=["litmus"]))
        out.append(wrap([[st("d", 1)] + [swap("f", v, "rel") for v in range(1, n + 1)], [ld("f"), fence("acq"), ld("d")]], [],
                        name=f"long-history-swaps-fence[{n}]", tags=["litmus"]))
        out.append({"threads": [[spawn(2), spawn(3), join(2), join(3)], [wr("c")] + [st("f", v, "rel") for v in range(1, n + 1)],
                                [ld("f"), br(1, n, 2), fence("acq"), rd("c")]], "name": f"long-history-fence-cell[{n}]", "tags": ["litmus"]})
    return out


def random_litmus(rng, max_threads=3, max_ops=6, sc_access=True):
    nt = rng.choice([2, 2, 3]) if max_threads >= 3 else 2
    locs = ["x", "y", "z"][: rng.choice([1, 2, 2, 3])]
    nextv = {l: 1 for l in locs}
    addv = {l: 10 for l in locs}
    total = 0
    threads = []
    budget = max_ops if nt == 2 else min(max_ops, 6)
    for t in range(nt):
        n = rng.choice([1, 2, 2, 3])
        th = []
        for _ in range(n):
            if total >= budget:
                break
            op = rng.choice(["ld", "ld", "ld", "st", "st", "st", "swap", "add", "cas", "fence"])
            if op == "fence":
                th.append(fence(rng.choice(F_ORDS)))
            else:
                x = rng.choice(locs)
                if op == "ld":
                    th.append(ld(x, rng.choice(LD_ORDS if sc_access else LD_ORDS[:2])))
                elif op == "st":
                    th.append(st(x, nextv[x], rng.choice(ST_ORDS if sc_access else ST_ORDS[:2])))
                    nextv[x] += 1
                elif op == "swap":
                    th.append(swap(x, nextv[x], rng.choice(RMW_ORDS if sc_access else RMW_ORDS[:4])))
                    nextv[x] += 1
                elif op == "add":
                    th.append(fadd(x, addv[x], rng.choice(RMW_ORDS if sc_access else RMW_ORDS[:4])))
                    addv[x] *= 2
                elif op == "cas":
                    exp = rng.choice([0] + list(range(1, nextv[x])))
                    s = rng.choice(RMW_ORDS if sc_access else RMW_ORDS[:4])
                    f = rng.choice({"rlx": ["rlx"], "acq": ["rlx", "acq"], "rel": ["rlx"], "acqrel": ["rlx", "acq"],
                                    "sc": ["rlx", "acq", "sc"]}[s])
                    th.append(cas(x, exp, nextv[x], s, f))
                    nextv[x] += 1
            total += 1
        if th:
            threads.append(th)
    if len(threads) < 2 or all(i["op"] == "fence" for th in threads for i in th):
        return random_litmus(rng, max_threads, max_ops, sc_access)
    # at most 5 stores per location (MAX_ATOMIC_HISTORY carve-out)
    for l in locs:
        if sum(1 for th in threads for i in th if i["o"] == l and i["op"] in ("st", "rmw", "cas")) > 5:
            return random_litmus(rng, max_threads, max_ops, sc_access)
    return wrap(threads, locs, name="rand", tags=["litmus", "random"])


def q_mo(p):
    """Quarantine predicate of the open findings F3/F4 (lazily ordered modification order):
    some location is written by two different threads and at least one of those writes is a
    plain store."""
    writers = {}
    for t, th in enumerate(p["threads"]):
        for i in th:
            if i["op"] in ("st", "rmw", "cas", "wmut"):
                writers.setdefault(i["o"], {}).setdefault(t, set()).add(i["op"])
    for x, w in writers.items():
        if len(w) >= 2 and any("st" in ops or "wmut" in ops for ops in w.values()):
            return True
    return False


def q_f16(p):
    """Quarantine predicate of the open finding F16 (an RMW always reads the latest executed store):
    a location with a plain store in one thread and an RMW / CAS in another."""
    st_t, rmw_t = {}, {}
    for t, th in enumerate(p["threads"]):
        for i in th:
            if i["op"] == "st":
                st_t.setdefault(i["o"], set()).add(t)
            elif i["op"] in ("rmw", "cas"):
                rmw_t.setdefault(i["o"], set()).add(t)
    return any(st_t.get(x, set()) - {t} for x, ts in rmw_t.items() for t in ts)


def litmus(tier, seed, avoid=()):
    """enumerated core + seeded random tail; `avoid`: quarantine predicates applied to the tail only"""
    rng = random.Random(seed * 7919 + 1)
    progs = litmus_shapes()
    n_rand = 60 if tier == "quick" else 600
    if tier == "thorough":
        progs += litmus_thorough_shapes()
    k = 0
    while k < n_rand:
        p = random_litmus(rng, max_ops=6 if tier == "quick" else 7)
        if any(q(p) for q in avoid):
            continue
        p["name"] = f"rand{k}"
        progs.append(p)
        k += 1
    return [normalize(p) for p in progs]


# ============================================================================================
# Synchronisation-primitive programs: a well-formed random generator shared by several families
# ============================================================================================
class TB:
    """Builder of one thread's code; tracks the register count for `br`."""
    def __init__(self, t):
        self.t = t
        self.code = []
        self.nregs = 0

    def add(self, ins):
        self.code.append(ins)
        if ins["op"] in RET_OPS:
            self.nregs += 1
        return self.nregs

    def guarded(self, try_ins, body, unlock_ins):
        """try_ins; if it returned 1 { body; unlock }"""
        r = self.add(try_ins)
        inner = body + [unlock_ins]
        self.code.append(br(r, 1, len(inner)))
        for i in inner:
            self.add(i)


class SyncGen:
    """Random well-formed programs over the blocking primitives.
    feats: subset of {"atom","mutex","try","rw","cv","chan","park","notify","arc","cell","yield"}"""
    def __init__(self, rng, feats, nspawn, max_ops, sc_atoms=True, leak_free=True, safe=True):
        """safe=True: do not draw the triggers of the open findings (quarantine, DESIGN.md §8):
        F3/F4 a location written by two threads one of them with a plain store; F5/F8/F10 unpark of a
        thread that can block elsewhere than in park; F11 a send after the receiver was dropped."""
        self.rng, self.feats, self.nspawn, self.max_ops = rng, set(feats), nspawn, max_ops
        self.sc_atoms = sc_atoms
        self.leak_free = leak_free
        self.safe = safe
        self.nextv = {}
        self.total = 0
        # per atomic: "owner:<t>" (only thread t writes) or "rmw" (everybody writes, RMWs only)
        self.policy = {x: rng.choice(["rmw"] + [f"owner:{t}" for t in range(1, nspawn + 2)]) for x in ("x", "y")}
        self.cur_t = 1
        self.unpark_targets = set()

    def val(self, o):
        self.nextv[o] = self.nextv.get(o, 0) + 1
        return self.nextv[o]

    def atom_op(self):
        rng = self.rng
        x = rng.choice(["x", "y"])
        o = "sc" if self.sc_atoms else None
        k = rng.choice(["ld", "ld", "st", "st", "swap", "cas"])
        if self.safe:
            pol = self.policy[x]
            if pol == "rmw" and k == "st":
                k = "swap"
            elif pol.startswith("owner:") and int(pol[6:]) != self.cur_t:
                k = "ld"
        if k == "ld":
            return ld(x, o or rng.choice(LD_ORDS))
        if k == "st":
            return st(x, self.val(x), o or rng.choice(ST_ORDS))
        if k == "swap":
            return swap(x, self.val(x), o or rng.choice(RMW_ORDS))
        exp = rng.choice([0, max(0, self.nextv.get(x, 0))])
        so = o or rng.choice(RMW_ORDS)
        return cas(x, exp, self.val(x), so, "sc" if o else "rlx")

    def inner_ops(self, tb, m, k):
        """up to k ops executed while holding mutex m"""
        rng, out = self.rng, []
        for _ in range(k):
            c = []
            if "cell" in self.feats: c.append("cell")
            if "atom" in self.feats: c.append("atom")
            if "cv" in self.feats: c += ["cvwait", "cvnotify"]
            if "chan" in self.feats: c.append("send")
            if "yieldcs" in self.feats: c += ["yield", "yield"]
            if not c:
                break
            w = rng.choice(c)
            if w == "yield": out.append(I("yield"))
            elif w == "cell": out.append(wr("c_" + m))
            elif w == "atom": out.append(self.atom_op())
            elif w == "cvwait": out.append(I("cvwait", "cv", o2=m))
            elif w == "cvnotify": out.append(I(rng.choice(["notify1", "notifyall"]), "cv"))
            elif w == "send": out.append(I("send", "ch", v=self.val("ch")))
        return out

    def gen(self):
        rng = self.rng
        n = self.nspawn
        tbs = {t: TB(t) for t in range(1, n + 2)}
        main = tbs[1]
        # roles
        receiver = rng.randint(1, n + 1)
        waiter = rng.randint(1, n + 1)      # the single thread allowed to nwait
        # per-thread op budgets: every spawned thread gets at least one block
        share = max(1, self.max_ops // (n + 1))
        tbudget = {t: share + (1 if rng.random() < 0.5 else 0) for t in range(2, n + 2)}
        tbudget[1] = rng.choice([0, 0, 1, share])
        per = {t: 3 for t in range(1, n + 2)}
        # arcs: one handle per thread
        arc_threads = []
        if "arc" in self.feats:
            arc_threads = [t for t in range(1, n + 2) if rng.random() < 0.7]
            if len(arc_threads) < 2:
                arc_threads = [1, 2]
        dropped = set()
        order = list(range(2, n + 2)) + [1]
        for t in order:
            tb = tbs[t]
            self.cur_t = t
            blocks = per[t]
            for _ in range(blocks):
                if len(tb.code) >= tbudget[t]:
                    break
                c = []
                if "atom" in self.feats: c += ["atom", "atom"]
                if "mutex" in self.feats: c += ["mutex", "mutex"]
                if "try" in self.feats: c.append("trylock")
                if "rw" in self.feats: c += ["read", "write", "tryrw"]
                if "cv" in self.feats and "mutex" in self.feats: c += ["cvnotify"]
                if "chan" in self.feats:
                    c.append("send")
                    if t == receiver: c += ["recv", "tryrecv", "tryrecv"]
                if "park" in self.feats:
                    if not (self.safe and any(i["op"] == "park" for i in tb.code)):
                        c.append("park")        # safe: at most one park per thread (open finding F15)
                    c.append("unpark")
                if "notify" in self.feats:
                    c.append("notify")
                    if t == waiter: c.append("nwait")
                if "arc" in self.feats and t in arc_threads and t not in dropped: c += ["acount", "aclone", "agetmut"]
                if "cell" in self.feats and "mutex" not in self.feats and "rw" not in self.feats: c.append("cell")
                if "yield" in self.feats: c.append("yield")
                if not c:
                    break
                w = rng.choice(c)
                before = len(tb.code)
                if w == "atom":
                    tb.add(self.atom_op())
                elif w == "mutex":
                    m = rng.choice(["m", "m", "n"])
                    tb.add(I("lock", m))
                    for i in self.inner_ops(tb, m, rng.choice([0, 1, 1, 2])):
                        tb.add(i)
                    tb.add(I("unlock", m))
                elif w == "trylock":
                    m = rng.choice(["m", "n"])
                    tb.guarded(I("trylock", m), self.inner_ops(tb, m, rng.choice([0, 1])), I("unlock", m))
                elif w == "read":
                    tb.add(I("read", "l"))
                    if "yieldcs" in self.feats and rng.random() < 0.6: tb.add(I("yield"))
                    if "cell" in self.feats: tb.add(rd("c_l"))
                    tb.add(I("unlockr", "l"))
                elif w == "write":
                    tb.add(I("write", "l"))
                    if "yieldcs" in self.feats and rng.random() < 0.4: tb.add(I("yield"))
                    if "cell" in self.feats: tb.add(wr("c_l"))
                    tb.add(I("unlockw", "l"))
                elif w == "tryrw":
                    if rng.random() < 0.5:
                        tb.guarded(I("tryread", "l"), [rd("c_l")] if "cell" in self.feats else [], I("unlockr", "l"))
                    else:
                        tb.guarded(I("trywrite", "l"), [wr("c_l")] if "cell" in self.feats else [], I("unlockw", "l"))
                elif w == "cvnotify":
                    tb.add(I(rng.choice(["notify1", "notifyall"]), "cv"))
                elif w == "send":
                    tb.add(I("send", "ch", v=self.val("ch")))
                elif w == "recv":
                    tb.add(I("recv", "ch"))
                elif w == "tryrecv":
                    tb.add(I("tryrecv", "ch"))
                elif w == "park":
                    tb.add(I("park"))
                elif w == "unpark":
                    targets = [1] + [j for j in range(2, t)] if t != 1 else list(range(2, n + 2))
                    if targets:
                        tgt = rng.choice(targets)
                        self.unpark_targets.add(tgt)
                        tb.add(unpark(tgt))
                elif w == "notify":
                    tb.add(I("notify", "nt"))
                elif w == "nwait":
                    tb.add(I("nwait", "nt"))
                elif w == "acount":
                    tb.add(I("acount", f"a{t}"))
                elif w == "agetmut":
                    tb.add(I("agetmut", f"a{t}"))
                elif w == "aclone":
                    tb.add(I("aclone", f"a{t}", o2=f"b{t}"))
                    if rng.random() < 0.5: tb.add(I("acount", f"b{t}"))
                    tb.add(I("adrop", f"b{t}"))
                elif w == "cell":
                    tb.add(rng.choice([rd("c"), wr("c")]))
                elif w == "yield":
                    tb.add(I("yield"))
                self.total += len(tb.code) - before
            if "arc" in self.feats and t in arc_threads and t != 1:
                tb.add(I("adrop", f"a{t}"))
                dropped.add(t)
        # main: spawn all first, then its own ops, then joins, then release/final reads
        own = main.code
        code = [spawn(t) for t in range(2, n + 2)] + own + [join(t) for t in range(2, n + 2)]
        if "arc" in self.feats and 1 in arc_threads:
            if rng.random() < 0.3:
                code.append(I("aunwrap", "a1"))   # after all joins: succeeds iff every other handle is gone
            else:
                code.append(I("acount", "a1"))
                code.append(I("adrop", "a1"))
        if "chan" in self.feats and self.leak_free:
            if receiver == 1:
                code.append(I("droprx", "ch"))
            else:
                pass
        if "atom" in self.feats:
            code += [ld("x", "sc" if self.sc_atoms else "rlx"), ld("y", "sc" if self.sc_atoms else "rlx")]
        threads = [code] + [tbs[t].code for t in range(2, n + 2)]
        if "chan" in self.feats and self.leak_free and receiver != 1:
            threads[receiver - 1].append(I("droprx", "ch"))
        p = {"threads": threads, "tags": ["sync"]}
        if "arc" in self.feats:
            p["arcs"] = {"A": {"h0": [f"a{t}" for t in arc_threads], "cell": ""}}
        return p


def fix_main_regs(p):
    return p


def gen_sync(rng, feats, nspawn, max_ops, tries=50, **kw):
    for _ in range(tries):
        g = SyncGen(rng, feats, nspawn, max_ops, **kw)
        p = g.gen()
        if sum(len(t) for t in p["threads"][1:]) >= 2:
            return p
    return p


def syncmix(tier, seed, avoid=()):
    """C01: every mix of object kinds (SeqCst atomics)"""
    rng = random.Random(seed * 104729 + 3)
    progs = []
    mixes = [["atom", "mutex"], ["atom", "mutex", "try"], ["atom", "rw", "try"], ["chan", "atom"], ["chan", "park"],
             ["park", "atom"], ["notify", "atom"], ["mutex", "cv"], ["mutex", "cv", "atom"], ["arc", "atom"],
             ["arc", "mutex"], ["atom", "mutex", "chan", "park", "notify"], ["atom"], ["chan", "notify", "mutex"],
             ["rw", "atom", "mutex"]]
    # directed core: the property's own example and the shapes of the open completeness findings
    progs.append(wrap([[st("x", 1, "sc"), ld("x", "sc")], [ld("x", "sc"), st("x", 2, "sc")]], [], name="C01-example"))
    progs.append(with_builder(progs[-1]))
    progs.append(P("F13-trylock-held", SJ(2) + JJ(2), CS("m", ld("x")), [L("trylock", "m"), br(1, 1, 1), L("unlock", "m")]))
    progs.append(P("F9-tryrecv-vs-send", [spawn(2), L("tryrecv", "ch"), join(2), L("droprx", "ch")], [L("send", "ch", v=5)]))
    progs.append(P("F14-count-vs-drop", [spawn(2), L("acount", "a1"), join(2), L("adrop", "a1")], [L("adrop", "a2")],
                   arcs={"A": {"h0": ["a1", "a2"], "cell": ""}}))
    progs.append(P("F15-park-twice", [spawn(2), spawn(3), unpark(2), join(2), join(3)], [L("park"), L("park")], [unpark(2)]))
    # a racing operation whose thread is blocked at the point where the other one was taken (a third thread unblocks it)
    progs.append(P("blocked-racer-recv", [spawn(2), spawn(3), L("recv", "ch"), st("x", 2, "sc"), join(2), join(3), L("droprx", "ch")],
                   [fadd("x", 1, "sc")], [L("send", "ch", v=1)]))
    progs.append(P("blocked-racer-join", [spawn(2), spawn(3), join(3), st("x", 2, "sc"), join(2)], [fadd("x", 1, "sc")], [ld("y", "sc")]))
    progs.append(P("blocked-racer-lock", SJ(3) + JJ(3), CS("m", ld("y", "sc")) + [st("x", 2, "sc")], [fadd("x", 1, "sc")], CS("m", st("y", 1, "sc"))))
    progs.append(P("blocked-racer-park", [spawn(2), spawn(3), ld("y", "sc"), unpark(2), join(2), join(3)], [L("park"), st("x", 2, "sc")], [fadd("x", 1, "sc")]))
    progs.append(P("blocked-racer-write", SJ(3) + JJ(3), [L("write", "l"), ld("y", "sc"), L("unlockw", "l"), st("x", 2, "sc")], [fadd("x", 1, "sc")],
                   [L("read", "l"), st("y", 1, "sc"), L("unlockr", "l")]))
    progs.append(P("blocked-racer-trylock", SJ(3) + JJ(3), CS("m", st("x", 1, "sc")), CS("m", fadd("x", 2, "sc")), [L("trylock", "m"), br(1, 1, 1), L("unlock", "m")]))
    # two readers that were both already waiting in read() when the writer lets go must still be able to overlap
    progs.append(P("two-pending-readers-overlap", [L("write", "l"), spawn(2), spawn(3), fadd("c", 0, "sc"), L("unlockw", "l"), join(2), join(3)],
                   [fadd("c", 1, "sc"), L("read", "l"), st("x", 1, "sc"), ld("y", "sc"), L("unlockr", "l")],
                   [fadd("c", 1, "sc"), L("read", "l"), st("y", 1, "sc"), ld("x", "sc"), L("unlockr", "l")]))
    progs.append(P("two-pending-lockers-exclude", [L("lock", "m"), spawn(2), spawn(3), fadd("c", 0, "sc"), L("unlock", "m"), join(2), join(3)],
                   [fadd("c", 1, "sc"), L("lock", "m"), st("x", 1, "sc"), ld("y", "sc"), L("unlock", "m")],
                   [fadd("c", 1, "sc"), L("lock", "m"), st("y", 1, "sc"), ld("x", "sc"), L("unlock", "m")]))
    progs.append(P("store-unpark-vs-load-park", [spawn(2), st("x", 1, "sc"), unpark(2), join(2)], [ld("x", "sc"), L("park")]))
    progs.append(P("locked-write-unpark-vs-locked-read-park", [spawn(2), spawn(3)] + CS("m", st("x", 1, "sc")) + [unpark(2), unpark(3), join(2), join(3)],
                   CS("m", ld("x", "sc")) + [L("park")], CS("m", ld("x", "sc")) + [L("park")]))
    per = 8 if tier == "quick" else 60
    for feats in mixes:
        k = 0
        while k < per:
            nspawn = rng.choice([2, 2, 2, 3]) if tier == "thorough" else rng.choice([2, 2, 2, 3])
            p = gen_sync(rng, feats, nspawn, 6 if nspawn == 3 else 7)
            if any(q(p) for q in avoid):
                continue
            p["name"] = "+".join(feats) + f"#{k}"
            progs.append(p)
            k += 1
    return [normalize(p) for p in progs]


# ------------------------------------------------------------------ waivers for open findings
def ops_of(p):
    return {i["op"] for th in p["threads"] for i in th}


def with_builder(p):
    """the same program with every thread created through thread::Builder (name + stack size) instead of thread::spawn"""
    import copy
    q = copy.deepcopy(p)
    for th in q["threads"]:
        for i in th:
            if i["op"] == "spawn":
                i["ord"] = "builder"
    q["name"] = (q.get("name") or "") + "+builder"
    return q


def with_cell_api(p, wk="cell"):
    """the same program with its plain UnsafeCell accesses made through loom::cell::Cell (get / set | replace | take)"""
    import copy
    q = copy.deepcopy(p)
    for th in q["threads"]:
        for i in th:
            if i["op"] == "rd" and i["k"] == "":
                i["k"] = "cell"
            elif i["op"] == "wr" and i["k"] == "":
                i["k"] = wk
                i["v"] = 1
    q["name"] = (q.get("name") or "") + "+Cell." + wk
    return q


def waived(p):
    """Parts of the comparison that are NOT applied to program p because an open finding
    (known_findings.json / DESIGN.md §8) would fire.  Returns {want-name: finding id}."""
    ops = ops_of(p)
    w = {}
    if ops & {"trylock", "tryread", "trywrite"}:
        w["complete"] = "F13"       # a failing try_* is only seen if the holder is preempted inside its critical section
    if "yield" in ops:
        w["complete"] = "yield"     # yield_now deprioritises the thread: which schedules are explored is C18's subject, not claimed here       # Arc inspections: single last-access slot per class
    return w


# ============================================================================================
# Directed shapes per property
# ============================================================================================
def P(name, *threads, arcs=None, tags=()):
    p = {"threads": [list(t) for t in threads], "name": name, "tags": list(tags)}
    if arcs:
        p["arcs"] = arcs
    return p


def L(op, o="", **kw):
    return I(op, o, **kw)


def race_idioms():
    out = []
    A = out.append
    sj = lambda n: [spawn(t) for t in range(2, n + 2)]
    jj = lambda n: [join(t) for t in range(2, n + 2)]
    # spawn / join edges
    A(P("spawn-ok", [wr("c"), spawn(2), join(2)], [rd("c")]))
    A(P("spawn-racy", [spawn(2), wr("c"), join(2)], [rd("c")]))
    A(P("join-ok", [spawn(2), join(2), rd("c")], [wr("c")]))
    A(P("join-racy", [spawn(2), rd("c"), join(2)], [wr("c")]))
    A(P("rd-rd-ok", [spawn(2), rd("c"), join(2)], [rd("c")]))
    A(P("wr-wr-racy", [spawn(2), spawn(3), join(2), join(3)], [wr("c")], [wr("c")]))
    for q in list(out):
        A(with_builder(q))          # spawn / join edges through thread::Builder
    # mutex hand-over
    A(P("mutex-ok", sj(2) + jj(2), [L("lock", "m"), wr("c"), L("unlock", "m")], [L("lock", "m"), rd("c"), L("unlock", "m")]))
    A(P("mutex-racy", sj(2) + jj(2), [L("lock", "m"), wr("c"), L("unlock", "m")], [L("lock", "m"), L("unlock", "m"), rd("c")]))
    A(P("mutex-2locks-racy", sj(2) + jj(2), [L("lock", "m"), wr("c"), L("unlock", "m")], [L("lock", "n"), wr("c"), L("unlock", "n")]))
    # rwlock
    A(P("rw-ok", sj(3) + jj(3), [L("write", "l"), wr("c"), L("unlockw", "l")], [L("read", "l"), rd("c"), L("unlockr", "l")],
        [L("read", "l"), rd("c"), L("unlockr", "l")]))
    A(P("rw-racy", sj(2) + jj(2), [L("read", "l"), wr("c"), L("unlockr", "l")], [L("read", "l"), rd("c"), L("unlockr", "l")]))
    # atomic flag, every ordering pair
    for w, r in itertools.product(ST_ORDS, LD_ORDS):
        A(P(f"flag[{w},{r}]", sj(2) + jj(2), [wr("c"), st("x", 1, w)], [ld("x", r), br(1, 1, 1), rd("c")]))
    for f1, f2 in [("rel", "acq"), ("acqrel", "acqrel"), ("sc", "sc"), ("acq", "rel"), ("rel", "rel")]:
        A(P(f"flag+fences[{f1},{f2}]", sj(2) + jj(2), [wr("c"), fence(f1), st("x", 1)],
            [ld("x"), br(1, 1, 2), fence(f2), rd("c")]))
    # a release OPERATION covers that operation only: a later relaxed store of the same thread (to another atomic) publishes nothing
    rdr = [ld("y", "acq"), br(1, 1, 1), rd("c")]
    A(P("relstore-then-rlx-store-racy", sj(2) + jj(2), [wr("c"), st("x", 1, "rel"), st("y", 1)], rdr))
    A(P("scstore-then-rlx-store-racy", sj(2) + jj(2), [wr("c"), st("x", 1, "sc"), st("y", 1)], rdr))
    A(P("relrmw-then-rlx-store-racy", sj(2) + jj(2), [wr("c"), fadd("x", 1, "rel"), st("y", 1)], rdr))
    A(P("unlock-then-rlx-store-racy", sj(2) + jj(2), [wr("c")] + CS("m") + [st("y", 1)], rdr))
    A(P("unlockw-then-rlx-store-racy", sj(2) + jj(2), [wr("c"), L("write", "l"), L("unlockw", "l"), st("y", 1)], rdr))
    A(P("send-then-rlx-store-racy", [spawn(2), spawn(3), L("recv", "ch"), join(2), join(3), L("droprx", "ch")], [wr("c"), L("send", "ch", v=1), st("y", 1)], rdr))
    A(P("notify-then-rlx-store-racy", [spawn(2), spawn(3), L("nwait", "nt"), join(2), join(3)], [wr("c"), L("notify", "nt"), st("y", 1)], rdr))
    A(P("unpark-then-rlx-store-racy", [spawn(2), spawn(3), L("park"), join(2), join(3)], [wr("c"), unpark(1), st("y", 1)], rdr))
    A(P("relstore-then-rlx-rmw-racy", sj(2) + jj(2), [wr("c"), st("x", 1, "rel"), fadd("y", 1)], rdr))
    # ... and a release FENCE covers the later stores of its own thread, not those of a thread spawned after it
    for f in ["rel", "acqrel", "sc"]:
        A(P(f"spawn-after-fence-racy[{f}]", [spawn(2), wr("c"), fence(f), spawn(3), join(2), join(3)], rdr, [st("y", 1)]))
    A(P("spawn-after-fence-child-fences-ok", [spawn(2), wr("c"), fence("rel"), spawn(3), join(2), join(3)], rdr, [fence("rel"), st("y", 1)]))
    A(P("spawn-after-relstore-racy", [spawn(2), wr("c"), st("x", 1, "rel"), spawn(3), join(2), join(3)], rdr, [st("y", 1)]))
    A(P("spawn-after-fence-grandchild-racy", [spawn(2), wr("c"), fence("rel"), spawn(3), join(2), join(3)], rdr, [spawn(4), join(4)], [st("y", 1)]))
    A(P("relfence-then-rlx-store-ok", sj(2) + jj(2), [wr("c"), fence("rel"), st("x", 1), st("y", 1)], rdr))
    A(P("flag-await-acq", sj(2) + jj(2), [wr("c"), st("x", 1, "rel")], [await_("x", "acq"), rd("c")]))
    A(P("flag-await-rlx", sj(2) + jj(2), [wr("c"), st("x", 1, "rel")], [await_("x", "rlx"), rd("c")]))
    # RMW chains / release sequences
    A(P("relseq-rmw-ok", sj(3) + jj(3), [wr("c"), st("x", 1, "rel")], [fadd("x", 10)], [ld("x", "acq"), br(1, 11, 1), rd("c")]))
    A(P("relseq-broken-racy", sj(3) + jj(3), [wr("c"), st("x", 1, "rel")], [await_("x", "rlx"), st("x", 2)],
        [ld("x", "acq"), br(1, 2, 1), rd("c")]))
    A(P("cas-handover-ok", sj(2) + jj(2), [wr("c"), cas("x", 0, 1, "rel", "rlx")], [cas("x", 1, 2, "acq", "rlx"), br(1, 1, 1), rd("c")]))
    A(P("cas-handover-racy", sj(2) + jj(2), [wr("c"), cas("x", 0, 1, "rlx", "rlx")], [cas("x", 1, 2, "acq", "rlx"), br(1, 1, 1), rd("c")]))
    A(P("casfail-handover-racy", sj(2) + jj(2), [wr("c"), st("x", 1, "rel")], [cas("x", 0, 2, "acq", "rlx"), br(1, 1, 1), rd("c")]))
    A(P("casfail-handover-racy-sc", sj(2) + jj(2), [wr("c"), st("x", 1, "rel")], [cas("x", 0, 2, "sc", "rlx"), br(1, 1, 1), rd("c")]))
    A(P("casfail-handover-ok", sj(2) + jj(2), [wr("c"), st("x", 1, "rel")], [cas("x", 0, 2, "acq", "acq"), br(1, 1, 1), rd("c")]))
    # multi-hop message passing
    A(P("2hop-ok", sj(3) + jj(3), [wr("c"), st("x", 1, "rel")], [await_("x", "acq"), st("y", 1, "rel")], [await_("y", "acq"), rd("c")]))
    A(P("2hop-rlxmid-racy", sj(3) + jj(3), [wr("c"), st("x", 1, "rel")], [await_("x", "rlx"), st("y", 1, "rel")],
        [await_("y", "acq"), rd("c")]))
    A(P("C04-F2-shape-racy", sj(3) + jj(3), [wr("c"), st("x", 1, "rel")], [await_("x", "rlx"), st("z", 1, "rel")],
        [await_("z", "acq"), fence("acq"), rd("c")]))
    for f in ("acqrel", "sc"):
        A(P(f"2hop-single-fence-ok[{f}]", sj(3) + jj(3), [wr("c"), st("x", 1, "rel")], [await_("x", "rlx"), fence(f), st("y", 1)],
            [await_("y", "acq"), rd("c")]))
    A(P("2hop-single-relfence-racy", sj(3) + jj(3), [wr("c"), st("x", 1, "rel")], [await_("x", "rlx"), fence("rel"), st("y", 1)],
        [await_("y", "acq"), rd("c")]))
    A(P("2hop-fence-ok", sj(3) + jj(3), [wr("c"), st("x", 1, "rel")], [await_("x", "rlx"), fence("acq"), st("z", 1, "rel")],
        [await_("z", "acq"), rd("c")]))
    # channel
    A(P("chan-ok", [spawn(2), L("recv", "ch"), rd("c"), join(2), L("droprx", "ch")], [wr("c"), L("send", "ch", v=1)]))
    A(P("chan-racy", [spawn(2), L("tryrecv", "ch"), rd("c"), join(2), L("droprx", "ch")], [wr("c"), L("send", "ch", v=1)]))
    A(P("chan-2msg-ok", [spawn(2), spawn(3), L("recv", "ch"), L("recv", "ch"), rd("c"), rd("d"), join(2), join(3), L("droprx", "ch")],
        [wr("c"), L("send", "ch", v=1)], [wr("d"), L("send", "ch", v=2)]))
    # pointers from UnsafeCell::get / get_mut: the access is open until the pointer is dropped, and what happens in between
    # counts (a release made while the pointer is still held does not cover the rest of the access)
    HR = lambda *b: [L("rdhold", "c")] + list(b) + [L("rdrel", "c")]
    HW = lambda *b: [L("wrhold", "c")] + list(b) + [L("wrrel", "c")]
    A(P("held-read-then-release-ok", sj(2) + jj(2), HR(ld("y")) + [st("x", 1, "rel")], [ld("x", "acq"), br(1, 1, 1), wr("c")]))
    # (not claimed: a release made while the pointer is still held. loom's drop-time re-check uses the thread's clock, which
    # has not ticked since the release, so the tail of the access is not seen; whether merely HOLDING the pointer is an access
    # is a matter of definition - the shapes here only use orders on which both readings agree)
    A(P("held-write-then-release-ok", sj(2) + jj(2), HW(ld("y")) + [st("x", 1, "rel")], [ld("x", "acq"), br(1, 1, 1), rd("c")]))
    A(P("held-reads-overlap-ok", sj(2) + jj(2), HR(ld("y"), ld("x")), HR(ld("x"), ld("y"))))
    A(P("held-read-vs-write-under-lock-ok", sj(2) + jj(2), CS("m", *HR(ld("y"))), CS("m", wr("c"))))
    A(P("held-read-outlives-lock-racy", sj(2) + jj(2), [L("lock", "m"), L("rdhold", "c"), L("unlock", "m"), ld("y"), L("rdrel", "c")], CS("m", wr("c"))))
    A(P("held-write-acquire-inside-ok", sj(2) + jj(2), [wr("c"), st("x", 1, "rel")], [L("rdhold", "c2"), ld("x", "acq"), L("rdrel", "c2"), br(1, 1, 1), rd("c")]))
    # RwLock hand-over: EVERY reader's release is acquired by the next writer, also a reader that is not the last one out
    RDc = lambda *b: [L("read", "l")] + list(b) + [L("unlockr", "l")]
    WRc = lambda *b: [L("write", "l")] + list(b) + [L("unlockw", "l")]
    A(P("rw-2readers-writer-ok", sj(3) + jj(3), RDc(rd("c"), ld("x")), RDc(rd("c"), ld("x")), WRc(wr("c"))))
    A(P("rw-2readers-writer-ok-yield", sj(3) + jj(3), RDc(rd("c"), I("yield")), RDc(I("yield"), rd("c")), WRc(wr("c"))))
    A(P("rw-writer-then-readers-ok", sj(3) + jj(3), WRc(wr("c")), RDc(rd("c"), ld("x")), RDc(ld("x"), rd("c"))))
    A(P("rw-reader-outside-racy", sj(3) + jj(3), RDc(ld("x")) + [rd("c")], RDc(rd("c"), ld("x")), WRc(wr("c"))))
    A(P("rw-writer-writer-ok", sj(2) + jj(2), WRc(wr("c"), ld("x")), WRc(ld("x"), wr("c"))))
    # park / unpark (the parker blocks nowhere else)
    A(P("park-ok", [spawn(3), spawn(2), join(2), join(3)], [wr("c"), unpark(3)], [L("park"), rd("c")]))
    A(P("park-racy", [spawn(3), spawn(2), join(2), join(3)], [wr("c"), unpark(3)], [rd("c"), L("park")]))
    A(P("unpark-nopark-racy", [spawn(3), spawn(2), join(2), join(3)], [wr("c"), unpark(3)], [ld("x"), rd("c")]))
    # the unpark arrives BEFORE the park (token): the edge must be there all the same
    A(P("unpark-first-ok", [spawn(2), spawn(3), join(2), join(3)], [wr("c"), unpark(3)], [L("park"), rd("c")]))
    A(P("unpark-first-main-ok", [spawn(2), wr("c"), unpark(2), join(2)], [L("park"), rd("c")]))
    A(P("unpark-first-after-yield-ok", [spawn(2), wr("c"), unpark(2), join(2)], [ld("x"), L("park"), rd("c")]))
    A(P("unpark-first-racy", [spawn(2), unpark(2), wr("c"), join(2)], [L("park"), rd("c")]))
    # condvar (mutex protects; never racy)
    A(P("cv-ok", sj(2) + jj(2), [L("lock", "m"), wr("c"), L("notify1", "cv"), L("unlock", "m")],
        [L("lock", "m"), rd("c"), L("unlock", "m")]))
    # Atomic::with_mut / unsync_load against atomic accesses
    A(P("withmut-ok", [spawn(2), join(2), L("wmut", "x", v=5), ld("x")], [st("x", 1)]))
    A(P("withmut-racy", [spawn(2), L("wmut", "x", v=5), join(2)], [st("x", 1)]))
    A(P("withmut-load-racy", [spawn(2), L("wmut", "x", v=5), join(2)], [ld("x")]))
    A(P("uld-ok", [spawn(2), join(2), L("uld", "x")], [st("x", 1)]))
    A(P("uld-racy", [spawn(2), L("uld", "x"), join(2)], [st("x", 1)]))
    A(P("uld-ld-ok", [spawn(2), L("uld", "x"), join(2)], [ld("x")]))
    # two threads store to the atomic, the second one saw the first store only through a relaxed load: an unsynchronised access
    # ordered after the SECOND storer alone still races with the first store
    for nm, acc in (("uld", L("uld", "x")), ("wmut", L("wmut", "x", v=5))):
        A(P(f"{nm}-after-second-storer-racy", [spawn(2), spawn(3), ld("y", "acq"), br(1, 1, 1), acc, join(2), join(3)],
            [st("x", 1)], [await_("x", "rlx", v=1), st("x", 2, "rel"), st("y", 1, "rel")]))
        A(P(f"{nm}-after-both-storers-ok", [spawn(2), spawn(3), ld("y", "acq"), br(1, 1, 1), acc, join(2), join(3)],
            [st("x", 1, "rel")], [await_("x", "acq", v=1), st("x", 2, "rel"), st("y", 1, "rel")]))
        A(P(f"{nm}-after-second-storer-rmw-racy", [spawn(2), spawn(3), ld("y", "acq"), br(1, 1, 1), acc, join(2), join(3)],
            [st("x", 1)], [await_("x", "rlx", v=1), fadd("x", 1, "rel"), st("y", 1, "rel")]))
    # with_mut whose closure writes and then panics, the panic caught by the program: the value written stays written
    A(P("withmut-caught-unwind-keeps-value", [L("wmut", "x", v=5, k="unwind"), ld("x"), fadd("x", 1), L("uld", "x")]))
    A(P("withmut-caught-unwind-keeps-value-thread", [spawn(2), join(2), ld("x"), swap("x", 9)], [st("x", 1), L("wmut", "x", v=7, k="unwind"), ld("x")]))
    A(P("withmut-synced-ok", [spawn(2), L("wmut", "x", v=5), st("y", 1, "rel"), join(2)], [await_("y", "acq"), ld("x")]))
    # the same accesses made through loom::cell::Cell (get = read access; set / replace / take = write access)
    plain = [q for q in out if any(i["op"] in ("rd", "wr") for th in q["threads"] for i in th)
             and not any(i["op"] in ("rdhold", "wrhold", "wrrd", "rdwr") or (i["op"] in ("rd", "wr") and i["k"]) for th in q["threads"] for i in th)]
    for n, q in enumerate(plain):
        if n % 3 == 0:
            A(with_cell_api(q, ["cell", "replace", "take"][(n // 3) % 3]))
    return out


def random_race(rng, nspawn):
    """cells accessed with and without synchronisation, atomics with random orderings"""
    g = SyncGen(rng, ["atom", "mutex", "cell"], nspawn, 7 if nspawn == 2 else 6, sc_atoms=False)
    p = g.gen()
    # sprinkle raw cell accesses
    for th in p["threads"][1:]:
        if rng.random() < 0.8:
            th.insert(rng.randint(0, len(th)), rng.choice([rd("c"), wr("c"), rd("c")]))
    if rng.random() < 0.5:
        m = p["threads"][0]
        k = rng.randint(0, len(m))
        m.insert(k, rng.choice([rd("c"), wr("c")]))
    return fix_br(p)


def fix_br(p):
    """recompute br register indices after instructions were inserted (a br tests the last result before it)"""
    for th in p["threads"]:
        n = 0
        for i in th:
            if i["op"] == "br":
                i["r"] = n
            if i["op"] in RET_OPS:
                n += 1
    return p


def races(tier, seed):
    rng = random.Random(seed * 31337 + 5)
    progs = race_idioms()
    for k in range(40 if tier == "quick" else 500):
        p = random_race(rng, rng.choice([2, 2, 3]))
        p["name"] = f"rand{k}"
        progs.append(p)
    return [normalize(p) for p in progs]


SJ = lambda n: [spawn(t) for t in range(2, n + 2)]
JJ = lambda n: [join(t) for t in range(2, n + 2)]
CS = lambda m, *body: [L("lock", m)] + list(body) + [L("unlock", m)]


def blocking_shapes():
    out = []
    A = out.append
    A(P("lock-inversion", SJ(2) + JJ(2), CS("m", *CS("n")), CS("n", *CS("m"))))
    A(P("lock-order-ok", SJ(2) + JJ(2), CS("m", *CS("n")), CS("m", *CS("n"))))
    A(P("lock-inversion-3", SJ(3) + JJ(3), CS("m", *CS("n")), CS("n", *CS("k")), CS("k", *CS("m"))))
    A(P("lock-inversion-guarded", SJ(2) + JJ(2), CS("g", *CS("m", *CS("n"))), CS("g", *CS("n", *CS("m")))))
    A(P("rw-inversion", SJ(2) + JJ(2), [L("write", "l"), L("write", "k"), L("unlockw", "k"), L("unlockw", "l")],
        [L("write", "k"), L("write", "l"), L("unlockw", "l"), L("unlockw", "k")]))
    A(P("rw-read-write-inversion", SJ(2) + JJ(2), [L("read", "l"), L("write", "k"), L("unlockw", "k"), L("unlockr", "l")],
        [L("read", "k"), L("write", "l"), L("unlockw", "l"), L("unlockr", "k")]))
    A(P("rw-readers-only-ok", SJ(2) + JJ(2), [L("read", "l"), L("read", "k"), L("unlockr", "k"), L("unlockr", "l")],
        [L("read", "k"), L("read", "l"), L("unlockr", "l"), L("unlockr", "k")]))
    A(P("recv-nosender-holding-read", [spawn(2), join(2)], [L("read", "l"), L("recv", "ch"), L("unlockr", "l")]))
    A(P("recv-nosender-holding-write", [spawn(2), join(2)], [L("write", "l"), L("recv", "ch"), L("unlockw", "l")]))
    # a reader that holds its guard while it waits for another reader of the same lock: readers never exclude each other
    A(P("reader-waits-for-reader", [spawn(2), spawn(3), L("recv", "c1"), join(2), join(3), L("droprx", "c1")],
        [L("read", "l"), L("send", "c1", v=1), L("recv", "c2"), L("unlockr", "l"), L("droprx", "c2")],
        [L("read", "l"), L("unlockr", "l"), L("send", "c2", v=1)]))
    A(P("reader-joins-reader", [spawn(3), spawn(2), L("recv", "c1"), join(2), L("droprx", "c1")],
        [L("read", "l"), L("send", "c1", v=1), join(3), L("unlockr", "l")], [L("read", "l"), L("unlockr", "l")]))
    A(P("reader-joins-tryreader", [spawn(3), spawn(2), L("recv", "c1"), join(2), L("droprx", "c1")],
        [L("read", "l"), L("send", "c1", v=1), join(3), L("unlockr", "l")], [L("tryread", "l"), br(1, 1, 1), L("unlockr", "l")]))
    # a thread about to try_lock / try_read / try_write is never blocked: the holder may be waiting for it (F22)
    A(P("trylocker-needed-by-blocked-holder", [spawn(2), L("lock", "m"), L("recv", "ch"), L("unlock", "m"), join(2), L("droprx", "ch")],
        [L("trylock", "m"), br(1, 1, 1), L("unlock", "m"), L("send", "ch", v=1)]))
    A(P("trywriter-needed-by-blocked-writer", [spawn(2), L("write", "l"), L("recv", "ch"), L("unlockw", "l"), join(2), L("droprx", "ch")],
        [L("trywrite", "l"), br(1, 1, 1), L("unlockw", "l"), L("send", "ch", v=1)]))
    A(P("tryreader-needed-by-blocked-writer", [spawn(2), L("write", "l"), L("recv", "ch"), L("unlockw", "l"), join(2), L("droprx", "ch")],
        [L("tryread", "l"), br(1, 1, 1), L("unlockr", "l"), L("send", "ch", v=1)]))
    A(P("trywriter-needed-by-blocked-reader", [spawn(2), L("read", "l"), L("recv", "ch"), L("unlockr", "l"), join(2), L("droprx", "ch")],
        [L("trywrite", "l"), br(1, 1, 1), L("unlockw", "l"), L("send", "ch", v=1)]))
    A(P("nested-lock-vs-nested-trylock", SJ(2) + JJ(2), CS("m", *CS("n")), [L("lock", "n"), L("trylock", "m"), br(1, 1, 1), L("unlock", "m"), L("unlock", "n")]))
    A(P("trylocker-needed-by-parked-holder", [spawn(2), L("lock", "m"), L("park"), L("unlock", "m"), join(2)],
        [L("trylock", "m"), br(1, 1, 1), L("unlock", "m"), unpark(1)]))
    # ... also when both readers were blocked behind a writer: its release lets ALL pending readers in, not only the first
    A(P("readers-behind-writer-wait-for-each-other", [L("write", "l"), spawn(2), spawn(3), ld("x"), L("unlockw", "l"), join(2), join(3)],
        [L("read", "l"), L("recv", "c2"), L("unlockr", "l"), L("droprx", "c2")], [L("read", "l"), L("send", "c2", v=1), L("unlockr", "l")]))
    A(P("readers-behind-writer-wait-for-each-other-mirrored", [L("write", "l"), spawn(2), spawn(3), ld("x"), L("unlockw", "l"), join(2), join(3)],
        [L("read", "l"), L("send", "c2", v=1), L("unlockr", "l")], [L("read", "l"), L("recv", "c2"), L("unlockr", "l"), L("droprx", "c2")]))
    A(P("readers-behind-writer-thread-join-each-other", [spawn(4), spawn(3), spawn(2), join(2), join(4)],
        [L("read", "l"), ld("x"), join(3), L("unlockr", "l")], [L("read", "l"), ld("x"), L("unlockr", "l")], [L("write", "l"), ld("x"), ld("x"), L("unlockw", "l")]))
    A(P("readers-behind-last-reader-of-writer-queue", [L("read", "l"), spawn(2), spawn(3), spawn(4), ld("x"), L("unlockr", "l"), join(2), join(3), join(4)],
        [L("write", "l"), ld("x"), L("unlockw", "l")], [L("read", "l"), L("recv", "c2"), L("unlockr", "l"), L("droprx", "c2")],
        [L("read", "l"), L("send", "c2", v=1), L("unlockr", "l")]))
    # two threads really waiting on one condvar (a counter under the mutex tells), two notify_one: both are released
    WT = [L("lock", "m"), fadd("n", 1, "rel"), L("cvwait", "cv", o2="m"), L("unlock", "m")]
    A(P("cv-two-waiters-two-notify-one", [spawn(2), spawn(3), await_("n", "acq", v=2), L("lock", "m"), L("unlock", "m"), L("notify1", "cv"), L("notify1", "cv"), join(2), join(3)],
        list(WT), list(WT)))
    A(P("cv-two-waiters-notify-all", [spawn(2), spawn(3), await_("n", "acq", v=2), L("lock", "m"), L("unlock", "m"), L("notifyall", "cv"), join(2), join(3)],
        list(WT), list(WT)))
    A(P("cv-two-waiters-one-notify-deadlocks", [spawn(2), spawn(3), await_("n", "acq", v=2), L("lock", "m"), L("unlock", "m"), L("notify1", "cv"), join(2), join(3)],
        list(WT), list(WT)))
    A(P("cv-three-waiters-three-notify-one", [spawn(2), spawn(3), spawn(4), await_("n", "acq", v=3), L("lock", "m"), L("unlock", "m"), L("notify1", "cv"), L("notify1", "cv"),
                                             L("notify1", "cv"), join(2), join(3), join(4)], list(WT), list(WT), list(WT)))
    A(P("recv-nosender", [spawn(2), L("recv", "ch"), join(2)], [ld("x")]))
    A(P("recv-sender", [spawn(2), L("recv", "ch"), join(2), L("droprx", "ch")], [L("send", "ch", v=1)]))
    A(P("recv-2-of-1", [spawn(2), L("recv", "ch"), L("recv", "ch"), join(2)], [L("send", "ch", v=1)]))
    A(P("park-nounpark", [spawn(2), join(2)], [L("park")]))
    A(P("park-unpark", [spawn(2), unpark(2), join(2)], [L("park")]))
    A(P("park-unpark-early-late", [spawn(2), spawn(3), join(2), join(3)], [L("park"), ld("x")], [st("x", 1), unpark(2)]))
    # an access before the unpark races with what the target does BEFORE it parks (unpark does not wait for the park)
    A(P("store-unpark-vs-load-park", [spawn(2), st("x", 1, "sc"), unpark(2), join(2)], [ld("x", "sc"), L("park")]))
    A(P("locked-write-unpark-vs-locked-read-park", [spawn(2), spawn(3)] + CS("m", st("x", 1, "sc")) + [unpark(2), unpark(3), join(2), join(3)],
        CS("m", ld("x", "sc")) + [L("park")], CS("m", ld("x", "sc")) + [L("park")]))
    A(P("missed-flag-then-park-twice", [spawn(2), st("x", 1, "sc"), unpark(2), join(2)], [ld("x", "sc"), br(1, 0, 2), L("park"), L("park")]))
    A(P("send-unpark-vs-tryrecv-park", [spawn(2), L("send", "ch", v=1), unpark(2), join(2)], [L("tryrecv", "ch"), L("park"), L("droprx", "ch")]))
    A(P("park-twice-one-unpark", [spawn(2), unpark(2), join(2)], [L("park"), L("park")]))
    A(P("park-twice-two-unparks", [spawn(2), unpark(2), unpark(2), join(2)], [L("park"), L("park")]))
    A(P("park-twice-unparks-2threads", [spawn(2), spawn(3), unpark(2), join(2), join(3)], [L("park"), L("park")], [unpark(2)]))
    A(P("nwait-nonotify", [spawn(2), join(2)], [L("nwait", "nt")]))
    A(P("nwait-notify", [spawn(2), L("notify", "nt"), join(2)], [L("nwait", "nt")]))
    A(P("nwait-twice-one-notify", [spawn(2), L("notify", "nt"), join(2)], [L("nwait", "nt"), L("nwait", "nt")]))
    A(P("cv-lost-notify", SJ(2) + JJ(2), CS("m", L("cvwait", "cv", o2="m")), CS("m", L("notify1", "cv"))))
    A(P("cv-notify-outside-lock", SJ(2) + JJ(2), CS("m", L("cvwait", "cv", o2="m")), [L("notify1", "cv")]))
    A(P("cv-two-waiters-one-notify", SJ(3) + JJ(3), CS("m", L("cvwait", "cv", o2="m")), CS("m", L("cvwait", "cv", o2="m")),
        CS("m", L("notify1", "cv"))))
    A(P("cv-two-waiters-notifyall", SJ(3) + JJ(3), CS("m", L("cvwait", "cv", o2="m")), CS("m", L("cvwait", "cv", o2="m")),
        CS("m", L("notifyall", "cv"))))
    A(P("rw-mutex-inversion", SJ(2) + JJ(2), [L("read", "l")] + CS("m") + [L("unlockr", "l")],
        [L("lock", "m"), L("write", "l"), L("unlockw", "l"), L("unlock", "m")]))
    A(P("rw-readers-ok", SJ(2) + JJ(2), [L("read", "l")] + CS("m") + [L("unlockr", "l")],
        [L("lock", "m"), L("read", "l"), L("unlockr", "l"), L("unlock", "m")]))
    A(P("write-write-ok", SJ(2) + JJ(2), [L("write", "l"), ld("x"), L("unlockw", "l")], [L("write", "l"), ld("x"), L("unlockw", "l")]))
    A(P("chan-lock-cycle", [spawn(2), L("lock", "m"), L("recv", "ch"), L("unlock", "m"), join(2), L("droprx", "ch")],
        CS("m", L("send", "ch", v=1))))
    A(P("await-never-deadlock-free", SJ(2) + JJ(2), [st("x", 1, "rel")], [await_("x", "acq")]))
    # the waiter with the higher id wins the mutex and then waits for something only the other waiter could do
    A(P("pile-up-deadlock-if-second-wins", [L("lock", "m"), spawn(2), spawn(3), L("recv", "ch"), L("recv", "ch"), L("unlock", "m"), join(2), join(3), L("droprx", "ch")],
        [L("send", "ch", v=1)] + CS("m", st("x", 1)), [L("send", "ch", v=2)] + CS("m", ld("x"), br(1, 0, 1), L("park"))))
    # a parked thread is not a waiter of the object it touched last
    A(P("park-after-mutex-nounpark", SJ(2) + JJ(2), CS("m") + [L("park")], CS("m", ld("x"))))
    A(P("park-after-mutex-nounpark-2", SJ(2) + JJ(2), CS("m", ld("x")) + [L("park")], CS("m") + CS("m")))
    A(P("park-after-rw-nounpark", SJ(2) + JJ(2), [L("read", "l"), L("unlockr", "l"), L("park")], [L("write", "l"), ld("x"), L("unlockw", "l")]))
    A(P("park-after-send-nounpark", [spawn(2), spawn(3), L("recv", "ch"), L("recv", "ch"), join(2), join(3), L("droprx", "ch")],
        [L("send", "ch", v=1), L("park")], [L("send", "ch", v=2)]))
    A(P("park-after-notify-nounpark", [spawn(2), spawn(3), L("nwait", "nt"), join(2), join(3)], [L("notify", "nt"), L("park")], [L("notify", "nt")]))
    # --- shapes of the open findings F5 / F8 / F10 (park token vs other blocking)
    A(P("F5-unpark-thread-in-join", [spawn(2), join(2)], [unpark(1)]))
    A(P("F5-unpark-thread-in-lock", [spawn(2), spawn(3), join(2), join(3)], CS("m", ld("x"), unpark(3)), CS("m", ld("x"))))
    A(P("F8-token-lost-on-mutex", [spawn(2), L("lock", "m"), L("unlock", "m"), L("park"), join(2)], CS("m", unpark(1))))
    A(P("F10-stale-token-cvwait", [spawn(3), spawn(2), join(2), join(3)], [unpark(3)], CS("m", L("cvwait", "cv", o2="m"))))
    return out


def blocking(tier, seed):
    rng = random.Random(seed * 65537 + 11)
    progs = blocking_shapes()
    mixes = [["mutex"], ["mutex", "chan"], ["park", "mutex"], ["park", "notify"], ["mutex", "cv"], ["rw", "mutex"],
             ["chan", "notify", "park"], ["mutex", "cv", "park", "chan"]]
    per = 6 if tier == "quick" else 80
    for feats in mixes:
        for k in range(per):
            n = rng.choice([2, 2, 3])
            p = gen_sync(rng, feats, n, 7 if n == 2 else 6)
            p["name"] = "+".join(feats) + f"#{k}"
            progs.append(p)
    return [normalize(p) for p in progs]


def lock_shapes():
    out = [P("two-pending-readers-overlap", [L("write", "l"), spawn(2), spawn(3), fadd("c", 0, "sc"), L("unlockw", "l"), join(2), join(3)],
             [fadd("c", 1, "sc"), L("read", "l"), st("x", 1, "sc"), ld("y", "sc"), L("unlockr", "l")],
             [fadd("c", 1, "sc"), L("read", "l"), st("y", 1, "sc"), ld("x", "sc"), L("unlockr", "l")])]
    out += [p for p in blocking_shapes() if p["name"].startswith("readers-behind-") or p["name"] in ("reader-waits-for-reader", "reader-joins-reader", "reader-joins-tryreader",
                                                          "rw-readers-only-ok", "rw-read-write-inversion")]
    A = out.append
    # a refused try_* must leave the lock as it is: every later attempt while the holder is still inside is refused too
    A(P("try-twice-under-own-write", [L("write", "l"), L("tryread", "l"), L("tryread", "l"), L("trywrite", "l"), L("unlockw", "l"),
                                      L("tryread", "l"), br(4, 1, 1), L("unlockr", "l")]))
    A(P("try-twice-under-own-read", [L("read", "l"), L("trywrite", "l"), L("trywrite", "l"), L("unlockr", "l"),
                                     L("trywrite", "l"), br(3, 1, 1), L("unlockw", "l")]))
    A(P("tryread-twice-under-writer", SJ(2) + JJ(2), [L("write", "l"), st("x", 1, "sc"), wr("c_l"), ld("y", "sc"), L("unlockw", "l")],
        [ld("x", "sc"), L("tryread", "l"), br(2, 1, 2), rd("c_l"), L("unlockr", "l"), L("tryread", "l"), br(3, 1, 2), rd("c_l"), L("unlockr", "l")], tags=["sync"]))
    A(P("tryread-then-read-under-writer", SJ(2) + JJ(2), [L("write", "l"), st("x", 1, "sc"), wr("c_l"), ld("y", "sc"), L("unlockw", "l")],
        [ld("x", "sc"), L("tryread", "l"), br(2, 1, 2), rd("c_l"), L("unlockr", "l"), L("read", "l"), rd("c_l"), L("unlockr", "l")], tags=["sync"]))
    A(P("tryread-then-trywrite-3", SJ(3) + JJ(3), [L("write", "l"), st("x", 1, "sc"), wr("c_l"), ld("y", "sc"), L("unlockw", "l")],
        [ld("x", "sc"), L("tryread", "l"), br(2, 1, 1), L("unlockr", "l")],
        [ld("x", "sc"), L("trywrite", "l"), br(2, 1, 2), wr("c_l"), L("unlockw", "l")], tags=["sync"]))
    A(P("mutex-3", SJ(3) + JJ(3), CS("m", wr("c_m"), ld("x")), CS("m", wr("c_m"), st("x", 1)), CS("m", wr("c_m"))))
    A(P("mutex-nested", SJ(2) + JJ(2), CS("m", wr("c_m"), *CS("n", wr("c_n"))), CS("m", *CS("n", wr("c_n")), wr("c_m"))))
    A(P("mutex-overlap", SJ(2) + JJ(2), [L("lock", "m"), L("lock", "n"), wr("c_m"), L("unlock", "m"), wr("c_n"), L("unlock", "n")],
        CS("m", wr("c_m")) + CS("n", wr("c_n"))))
    A(P("trylock-held", SJ(2) + JJ(2), CS("m", ld("x"), wr("c_m")), [L("trylock", "m"), br(1, 1, 2), wr("c_m"), L("unlock", "m")]))
    A(P("trylock-both", SJ(2) + JJ(2), [L("trylock", "m"), br(1, 1, 3), ld("x"), wr("c_m"), L("unlock", "m")],
        [L("trylock", "m"), br(1, 1, 3), ld("x"), wr("c_m"), L("unlock", "m")]))
    A(P("rw-2r-1w", SJ(3) + JJ(3), [L("read", "l"), ld("x"), rd("c_l"), L("unlockr", "l")], [L("read", "l"), ld("x"), rd("c_l"), L("unlockr", "l")],
        [L("write", "l"), ld("x"), wr("c_l"), L("unlockw", "l")]))
    A(P("rw-tryread-writer", SJ(2) + JJ(2), [L("write", "l"), ld("x"), wr("c_l"), L("unlockw", "l")],
        [L("tryread", "l"), br(1, 1, 2), rd("c_l"), L("unlockr", "l")]))
    A(P("rw-trywrite-reader", SJ(2) + JJ(2), [L("read", "l"), ld("x"), rd("c_l"), L("unlockr", "l")],
        [L("trywrite", "l"), br(1, 1, 2), wr("c_l"), L("unlockw", "l")]))
    A(P("rw-trywrite-writer", SJ(2) + JJ(2), [L("write", "l"), ld("x"), wr("c_l"), L("unlockw", "l")],
        [L("trywrite", "l"), br(1, 1, 2), wr("c_l"), L("unlockw", "l")]))
    A(P("rw-write-3", SJ(3) + JJ(3), [L("write", "l"), wr("c_l"), L("unlockw", "l")], [L("write", "l"), wr("c_l"), L("unlockw", "l")],
        [L("write", "l"), wr("c_l"), L("unlockw", "l")]))
    A(P("handover-chain", SJ(3) + JJ(3), CS("m", wr("c"), st("x", 1)), CS("m", ld("x"), wr("c")), CS("m", ld("x"), rd("c"))))
    # the protected value: through the guard, get_mut and into_inner
    A(P("mutex-value", SJ(2) + JJ(2) + [L("mgetmut", "m"), L("minto", "m")], CS("m", L("mget", "m"), L("mset", "m", v=1)), CS("m", L("mget", "m"), L("mset", "m", v=2))))
    A(P("mutex-value-try", SJ(2) + JJ(2) + [L("minto", "m")], CS("m", L("mset", "m", v=1), I("yield")),
        [L("trylock", "m"), br(1, 1, 3), L("mget", "m"), L("mset", "m", v=2), L("unlock", "m")]))
    A(P("rw-value", SJ(3) + JJ(3) + [L("rwgetmut", "l"), L("rwinto", "l")], [L("write", "l"), L("rwget", "l"), L("rwset", "l", v=1), L("unlockw", "l")],
        [L("read", "l"), L("rwget", "l"), L("unlockr", "l")], [L("write", "l"), L("rwset", "l", v=2), L("unlockw", "l")]))
    A(P("mutex-value-cv", SJ(2) + JJ(2) + [L("minto", "m")], CS("m", L("cvwait", "cv", o2="m"), L("mget", "m")), CS("m", L("mset", "m", v=7), L("notify1", "cv"))))
    # a yield inside the critical section is the only way to make loom overlap sections / observe a held lock
    Y = I("yield")
    A(P("rw-overlap-readers-then-writer", SJ(3) + JJ(3), [L("read", "l"), Y, rd("c_l"), L("unlockr", "l")],
        [L("read", "l"), Y, rd("c_l"), L("unlockr", "l")], [L("write", "l"), wr("c_l"), L("unlockw", "l")]))
    A(P("rw-overlap-readers-writer-first", SJ(3) + JJ(3), [L("read", "l"), rd("c_l"), Y, L("unlockr", "l")],
        [L("read", "l"), Y, rd("c_l"), L("unlockr", "l")], [L("write", "l"), Y, wr("c_l"), L("unlockw", "l")]))
    A(P("trylock-held-yield", SJ(2) + JJ(2), CS("m", Y, wr("c_m")), [L("trylock", "m"), br(1, 1, 2), wr("c_m"), L("unlock", "m")]))
    A(P("tryread-held-yield", SJ(2) + JJ(2), [L("write", "l"), Y, wr("c_l"), L("unlockw", "l")],
        [L("tryread", "l"), br(1, 1, 2), rd("c_l"), L("unlockr", "l")]))
    A(P("trywrite-readers-yield", SJ(3) + JJ(3), [L("read", "l"), Y, rd("c_l"), L("unlockr", "l")], [L("read", "l"), Y, rd("c_l"), L("unlockr", "l")],
        [L("trywrite", "l"), br(1, 1, 2), wr("c_l"), L("unlockw", "l")]))
    A(P("mutex-3-yield", SJ(3) + JJ(3), CS("m", Y, wr("c_m")), CS("m", wr("c_m"), Y), CS("m", Y, wr("c_m"), Y)))
    # the holder releases while the try_lock-er is parked at try_lock's own scheduling point (a later lock of the
    # holder is what makes loom schedule it there): the result must reflect the lock state at that instant
    A(P("trylock-then-holder-releases", SJ(2) + JJ(2), CS("m", Y) + CS("m"), [L("trylock", "m"), br(1, 1, 1), L("unlock", "m")]))
    A(P("trylock-then-holder-releases-3", SJ(3) + JJ(3), CS("m", Y) + CS("m"), [L("trylock", "m"), br(1, 1, 1), L("unlock", "m")], CS("m", Y)))
    A(P("tryread-then-writer-releases", SJ(2) + JJ(2), [L("write", "l"), Y, L("unlockw", "l"), L("write", "l"), L("unlockw", "l")],
        [L("tryread", "l"), br(1, 1, 1), L("unlockr", "l")]))
    A(P("trywrite-then-reader-releases", SJ(2) + JJ(2), [L("read", "l"), Y, L("unlockr", "l"), L("write", "l"), L("unlockw", "l")],
        [L("trywrite", "l"), br(1, 1, 1), L("unlockw", "l")]))
    # two waiters pile up on one mutex while the holder is blocked inside its section: either may win
    A(P("two-waiters-pile-up", [L("lock", "m"), spawn(2), spawn(3), L("recv", "ch"), L("recv", "ch"), L("unlock", "m"), join(2), join(3), L("droprx", "ch"), ld("x")],
        [L("send", "ch", v=1)] + CS("m", fadd("x", 1)), [L("send", "ch", v=2)] + CS("m", fadd("x", 2))))
    A(P("two-waiters-pile-up-rw", [L("write", "l"), spawn(2), spawn(3), L("recv", "ch"), L("recv", "ch"), L("unlockw", "l"), join(2), join(3), L("droprx", "ch")],
        [L("send", "ch", v=1), L("write", "l"), fadd("x", 1), L("unlockw", "l")], [L("send", "ch", v=2), L("write", "l"), fadd("x", 2), L("unlockw", "l")]))
    return out


def locks(tier, seed):
    rng = random.Random(seed * 257 + 13)
    progs = lock_shapes()
    mixes = [["mutex", "cell"], ["mutex", "try", "cell", "atom"], ["rw", "try", "cell", "atom"], ["mutex", "rw", "cell"],
             ["mutex", "rw", "try", "cell", "atom"], ["rw", "cell", "yieldcs"], ["mutex", "rw", "try", "cell", "yieldcs"]]
    per = 8 if tier == "quick" else 100
    for feats in mixes:
        for k in range(per):
            n = rng.choice([2, 2, 3, 3])
            p = gen_sync(rng, feats, n, 8 if n == 2 else 7)
            p["name"] = "+".join(feats) + f"#{k}"
            progs.append(p)
    return [normalize(p) for p in progs]


def wait_shapes():
    out = blocking_shapes()
    A = out.append
    # hand-over of prior writes through each wake-up
    A(P("cv-handover", SJ(2) + JJ(2), CS("m", L("cvwait", "cv", o2="m"), rd("c")), [wr("c")] + CS("m", L("notify1", "cv"))))
    # the notifier writes AFTER its last unlock and before the notification: only the wake-up itself orders it before the waiter
    # (main holds the mutex while it spawns the notifier and lets go only inside wait: the wake-up cannot be lost)
    for nf in ("notify1", "notifyall"):
        A(P(f"cv-wake-edge[{nf}]", [L("lock", "m"), spawn(2), L("cvwait", "cv", o2="m"), rd("c"), L("unlock", "m"), join(2)],
            CS("m") + [wr("c"), L(nf, "cv")]))
        A(P(f"cv-wake-edge-atomic[{nf}]", [L("lock", "m"), spawn(2), L("cvwait", "cv", o2="m"), ld("x"), L("unlock", "m"), join(2)],
            CS("m") + [st("x", 1), L(nf, "cv")]))
    A(P("cv-wake-edge-all-two-waiters", [spawn(2), spawn(3), spawn(4), join(2), join(3), join(4)],
        [L("lock", "m"), fadd("n", 1, "rel"), L("cvwait", "cv", o2="m"), rd("c"), L("unlock", "m")],
        [L("lock", "m"), fadd("n", 1, "rel"), L("cvwait", "cv", o2="m"), rd("c"), L("unlock", "m")],
        [await_("n", "acq", v=2)] + CS("m") + [wr("c"), L("notifyall", "cv")]))
    A(P("cv-handover-in-cs", SJ(2) + JJ(2), CS("m", L("cvwait", "cv", o2="m"), rd("c")), CS("m", wr("c"), L("notify1", "cv"))))
    A(P("notify-handover", [spawn(2), wr("c"), L("notify", "nt"), join(2)], [L("nwait", "nt"), rd("c")]))
    # a notification that arrives while the future waiter is still on its way into wait() (it holds the mutex, it is
    # not waiting yet) wakes nobody and must not consume anything: the later, real notification still finds the waiter
    A(P("cv-early-notify-then-real-notify", SJ(2) + JJ(2), [L("lock", "m"), ld("s"), br(1, 0, 1), L("cvwait", "cv", o2="m"), L("unlock", "m")],
        [L("notify1", "cv")] + CS("m", st("s", 1)) + [L("notify1", "cv")]))
    A(P("cv-early-notifyall-then-real-notify", SJ(2) + JJ(2), [L("lock", "m"), ld("s"), br(1, 0, 1), L("cvwait", "cv", o2="m"), L("unlock", "m")],
        [L("notifyall", "cv")] + CS("m", st("s", 1)) + [L("notify1", "cv")]))
    A(P("cv-two-items", SJ(2) + JJ(2), [L("lock", "m"), ld("s"), br(1, 0, 1), L("cvwait", "cv", o2="m"), ld("s"), br(2, 1, 1), L("cvwait", "cv", o2="m"), L("unlock", "m")],
        CS("m", st("s", 1)) + [L("notify1", "cv")] + CS("m", st("s", 2)) + [L("notify1", "cv")]))
    # at most ONE spurious return per Notify, also after a real wake-up in between: the third return is the second notification
    A(P("notify-spurious-once-three-waits", [spawn(2), L("nwait", "nt"), ld("s"), br(1, 0, 5), L("nwait", "nt"), ld("s"), st("a", 1, "rel"),
                                             L("nwait", "nt"), ld("s"), st("a", 1, "rel"), join(2)],
        [st("s", 1), L("notify", "nt"), await_("a", "acq"), st("s", 2), L("notify", "nt")]))
    # two notifications coalesce before the wait: the waiter is ordered after (at least) the last notifier
    A(P("notify-twice-handover", [spawn(2), spawn(3), L("nwait", "nt"), ld("a"), ld("b"), join(2), join(3)],
        [st("a", 1), L("notify", "nt")], [st("b", 1), L("notify", "nt")]))
    A(P("notify-twice-handover-cells", [spawn(2), spawn(3), join(2), L("nwait", "nt"), rd("c"), join(3)],
        [ld("a")], [wr("c"), L("notify", "nt")]))
    A(P("notify-before-wait", [L("notify", "nt"), spawn(2), join(2)], [L("nwait", "nt"), ld("x")]))
    A(P("park-handover", [spawn(2), wr("c"), unpark(2), join(2)], [L("park"), rd("c")]))
    A(P("join-handover", [spawn(2), join(2), rd("c")], [wr("c")]))
    A(P("join-2", [spawn(2), spawn(3), join(3), join(2), rd("c"), rd("d")], [wr("c")], [wr("d")]))
    A(P("cv-notifyall-3", [spawn(2), spawn(3), spawn(4), join(2), join(3), join(4)], CS("m", L("cvwait", "cv", o2="m"), ld("x")),
        CS("m", L("cvwait", "cv", o2="m"), ld("x")), CS("m", st("x", 1), L("notifyall", "cv"))))
    A(P("cv-notify1-twice", [spawn(2), spawn(3), spawn(4), join(2), join(3), join(4)], CS("m", L("cvwait", "cv", o2="m")),
        CS("m", L("cvwait", "cv", o2="m")), CS("m", L("notify1", "cv"), L("notify1", "cv"))))
    A(P("unpark-twice-coalesce", [spawn(2), unpark(2), unpark(2), join(2)], [L("park"), ld("x")]))
    # a thread that REALLY blocked in park (no token) and was woken is not parked any more: an unpark that arrives before
    # its next park leaves a token.  The second unpark is issued only after the first park has returned (await), so the
    # two unparks cannot coalesce and no execution deadlocks.
    A(P("park-woken-then-token", [spawn(2), I("yield"), unpark(2), await_("y", "acq"), unpark(2), join(2)],
        [L("park"), st("y", 1, "rel"), I("yield"), L("park")]))
    A(P("park-woken-then-token-store-race", [spawn(2), st("x", 1), unpark(2), await_("y", "acq"), unpark(2), join(2)],
        [st("x", 2), L("park"), st("y", 1, "rel"), ld("x"), L("park")]))
    A(P("park-woken-then-token-3", [spawn(2), spawn(3), I("yield"), unpark(2), join(2), join(3)],
        [L("park"), st("y", 1, "rel"), I("yield"), L("park"), ld("z")], [await_("y", "acq"), st("z", 1), unpark(2)]))
    # ... and an unpark of a thread that was woken from a real park and now blocks elsewhere must not release it
    A(P("park-woken-then-lock-unpark", [spawn(2), L("lock", "m"), I("yield"), unpark(2), I("yield"), unpark(2), I("yield"), ld("x"), L("unlock", "m"), join(2)],
        [L("park")] + CS("m", st("x", 1))))
    A(P("park-woken-then-cvwait-unpark", [spawn(2), I("yield"), unpark(2), I("yield"), unpark(2), I("yield")] + CS("m", st("x", 1), L("notify1", "cv")) + [join(2)],
        [L("park")] + CS("m", ld("x"), br(1, 0, 1), L("cvwait", "cv", o2="m"), ld("x"))))
    return out


def waits(tier, seed):
    rng = random.Random(seed * 8191 + 17)
    progs = wait_shapes()
    mixes = [["mutex", "cv"], ["mutex", "cv", "cell"], ["notify", "atom"], ["park", "atom"], ["park", "notify", "mutex", "cv"]]
    per = 8 if tier == "quick" else 100
    for feats in mixes:
        for k in range(per):
            n = rng.choice([2, 2, 3])
            p = gen_sync(rng, feats, n, 7 if n == 2 else 6, sc_atoms=False)
            p["name"] = "+".join(feats) + f"#{k}"
            progs.append(p)
    return [normalize(p) for p in progs]


def chan_shapes():
    out = []
    A = out.append
    A(P("1s-1r", [spawn(2), L("recv", "ch"), join(2), L("droprx", "ch")], [L("send", "ch", v=1)]))
    A(P("2s-fifo", [spawn(2), L("recv", "ch"), L("recv", "ch"), join(2), L("droprx", "ch")], [L("send", "ch", v=1), L("send", "ch", v=2)]))
    A(P("2senders", [spawn(2), spawn(3), L("recv", "ch"), L("recv", "ch"), join(2), join(3), L("droprx", "ch")],
        [L("send", "ch", v=1)], [L("send", "ch", v=2)]))
    A(P("3senders", [spawn(2), spawn(3), spawn(4), L("recv", "ch"), L("recv", "ch"), L("recv", "ch"), join(2), join(3), join(4), L("droprx", "ch")],
        [L("send", "ch", v=1)], [L("send", "ch", v=2)], [L("send", "ch", v=3)]))
    A(P("2senders-2each", [spawn(2), spawn(3), L("recv", "ch"), L("recv", "ch"), L("recv", "ch"), L("recv", "ch"), join(2), join(3), L("droprx", "ch")],
        [L("send", "ch", v=1), L("send", "ch", v=2)], [L("send", "ch", v=3), L("send", "ch", v=4)]))
    A(P("leftover-leak", [spawn(2), L("recv", "ch"), join(2)], [L("send", "ch", v=1), L("send", "ch", v=2)]))
    A(P("leftover-drained", [spawn(2), L("recv", "ch"), join(2), L("droprx", "ch")], [L("send", "ch", v=1), L("send", "ch", v=2)]))
    A(P("recv-more-than-sent", [spawn(2), L("recv", "ch"), L("recv", "ch"), join(2)], [L("send", "ch", v=1)]))
    A(P("hb-send-recv", [spawn(2), L("recv", "ch"), rd("c"), join(2), L("droprx", "ch")], [wr("c"), L("send", "ch", v=1)]))
    # the message is received while ANOTHER one is still queued (a relaxed counter tells the receiver that both were sent;
    # it carries no ordering): every receive acquires its own message's send, whatever else is in the queue
    A(P("hb-recv-with-more-queued", [spawn(2), await_("n", "rlx", v=1), L("recv", "ch"), rd("c"), L("recv", "ch"), join(2), L("droprx", "ch")],
        [wr("c"), L("send", "ch", v=1), L("send", "ch", v=2), fadd("n", 1)]))
    A(P("hb-recv-with-more-queued-2", [spawn(2), await_("n", "rlx", v=1), L("recv", "ch"), L("recv", "ch"), rd("c"), rd("d"), join(2), L("droprx", "ch")],
        [wr("c"), L("send", "ch", v=1), wr("d"), L("send", "ch", v=2), fadd("n", 1)]))
    A(P("hb-tryrecv-with-more-queued", [spawn(2), await_("n", "rlx", v=1), L("tryrecv", "ch"), rd("c"), join(2), L("droprx", "ch")],
        [wr("c"), L("send", "ch", v=1), L("send", "ch", v=2), fadd("n", 1)]))
    A(P("hb-recv-atomic-with-more-queued", [spawn(2), spawn(3), await_("n", "rlx", v=2), L("recv", "ch"), L("recv", "ch"), ld("x"), ld("y"), join(2), join(3), L("droprx", "ch")],
        [st("x", 1), L("send", "ch", v=1), fadd("n", 1)], [st("y", 1), L("send", "ch", v=2), fadd("n", 1)]))
    A(P("hb-later-recv", [spawn(2), spawn(3), L("recv", "ch"), L("recv", "ch"), rd("c"), rd("d"), join(2), join(3), L("droprx", "ch")],
        [wr("c"), L("send", "ch", v=1)], [wr("d"), L("send", "ch", v=2)]))
    A(P("receiver-in-thread", [spawn(2), spawn(3), join(2), join(3)], [L("recv", "ch"), L("recv", "ch"), L("droprx", "ch")],
        [L("send", "ch", v=1), L("send", "ch", v=2)]))
    A(P("tryrecv-after-join", [spawn(2), join(2), L("tryrecv", "ch"), L("tryrecv", "ch"), L("droprx", "ch")], [L("send", "ch", v=1)]))
    A(P("send-under-lock", [spawn(2), spawn(3), L("recv", "ch"), L("recv", "ch"), join(2), join(3), L("droprx", "ch")],
        CS("m", L("send", "ch", v=1)), CS("m", L("send", "ch", v=2))))
    # --- shapes of the open findings F9 / F11
    A(P("F9-tryrecv-vs-send", [spawn(2), L("tryrecv", "ch"), join(2), L("droprx", "ch")], [L("send", "ch", v=5)]))
    A(P("F9-tryrecv-twice", [spawn(2), L("tryrecv", "ch"), L("tryrecv", "ch"), join(2), L("droprx", "ch")], [L("send", "ch", v=5), L("send", "ch", v=6)]))
    # ... in every spawn order: the thread that polls may have been created after the sender, or be a child of it
    A(P("msg-left-if-late-child-polls", [spawn(2), L("send", "ch", v=1), join(2)], [L("tryrecv", "ch")]))
    A(P("msg-left-if-late-sender-spawned-first", SJ(2) + JJ(2), [L("send", "ch", v=1)], [L("tryrecv", "ch")]))
    A(P("msg-left-if-late-poller-spawned-first", SJ(2) + JJ(2), [L("tryrecv", "ch")], [L("send", "ch", v=1)]))
    A(P("track-left-if-poll-early", [L("tnew", "k")] + SJ(2) + JJ(2) + [L("droprx", "ch")], [L("send", "ch", v=1)], [L("tryrecv", "ch"), br(1, 0, 1), L("tdrop", "k")]))
    A(P("msg-left-if-second-poll-early", SJ(2) + JJ(2), [L("send", "ch", v=1), L("send", "ch", v=2)], [L("tryrecv", "ch"), L("tryrecv", "ch")]))
    A(P("F11-send-after-droprx", [L("droprx", "ch"), L("send", "ch", v=1)]))
    A(P("F11-send-races-droprx", [spawn(2), L("droprx", "ch"), join(2)], [L("send", "ch", v=1)]))
    return out


def chans(tier, seed):
    rng = random.Random(seed * 131 + 19)
    progs = chan_shapes()
    mixes = [["chan"], ["chan", "atom"], ["chan", "mutex"], ["chan", "cell", "mutex"]]
    per = 10 if tier == "quick" else 120
    for feats in mixes:
        for k in range(per):
            n = rng.choice([2, 2, 3, 3])
            p = gen_sync(rng, feats, n, 7 if n == 2 else 6, sc_atoms=False)
            p["name"] = "+".join(feats) + f"#{k}"
            progs.append(p)
    return [normalize(p) for p in progs]


def arc_shapes():
    out = []
    A = out.append
    a3 = {"A": {"h0": ["a1", "a2", "a3"], "cell": "pc"}}
    a2 = {"A": {"h0": ["a1", "a2"], "cell": "pc"}}
    a1 = {"A": {"h0": ["a1"], "cell": "pc"}}
    D = lambda h: L("adrop", h)
    A(P("drop-3", SJ(2) + [rd("pc"), D("a1")] + JJ(2), [rd("pc"), D("a2")], [rd("pc"), D("a3")], arcs=a3))
    A(P("drop-after-join", SJ(2) + JJ(2) + [L("acount", "a1"), D("a1")], [rd("pc"), D("a2")], [rd("pc"), D("a3")], arcs=a3))
    A(P("clone-in-thread", [spawn(2), join(2), L("acount", "a1"), D("a1")], [L("aclone", "a2", o2="b2"), L("acount", "b2"), D("b2"), D("a2")], arcs=a2))
    A(P("count-vs-drop", [spawn(2), L("acount", "a1"), join(2), D("a1")], [D("a2")], arcs=a2))
    # an inspection, then a decrement (by anybody), then a concurrent clone in a thread that keeps its handles: the clone
    # still races with the inspection (a decrement does not stand in for the inspections it follows)
    A(P("count-then-remote-drop-vs-keeping-clone", [spawn(2), spawn(3), L("acount", "a1"), join(2), join(3), D("a3"), D("b3"), D("a1")],
        [D("a2")], [L("aclone", "a3", o2="b3")], arcs=a3))
    A(P("count-then-getmut-vs-keeping-clone", [spawn(2), L("acount", "a1"), L("agetmut", "a1"), join(2), D("a2"), D("b2"), D("a1")],
        [L("aclone", "a2", o2="b2")], arcs=a2))
    A(P("count-then-own-drop-vs-keeping-clone", [spawn(2), L("aclone", "a1", o2="b1"), L("acount", "a1"), D("b1"), join(2), D("a2"), D("b2"), D("a1")],
        [L("aclone", "a2", o2="b2")], arcs=a2))
    A(P("count-then-unwrap-vs-keeping-clone", [spawn(2), L("acount", "a1"), join(2), D("a2"), D("b2"), L("aunwrap", "a1")],
        [L("aclone", "a2", o2="b2")], arcs=a2))
    A(P("count-vs-clone", [spawn(2), L("acount", "a1"), join(2), D("a1")], [L("aclone", "a2", o2="b2"), D("b2"), D("a2")], arcs=a2))
    A(P("getmut-vs-drop", [spawn(2), L("agetmut", "a1"), join(2), L("agetmut", "a1"), D("a1")], [rd("pc"), D("a2")], arcs=a2))
    A(P("unwrap-vs-drop", [spawn(2), L("aunwrap", "a1"), br(1, 0, 1), D("a1"), join(2)], [rd("pc"), D("a2")], arcs=a2))
    A(P("unwrap-after-join", [spawn(2), join(2), L("aunwrap", "a1")], [rd("pc"), D("a2")], arcs=a2))
    A(P("unwrap-both", SJ(2) + JJ(2), [L("aunwrap", "a1"), br(1, 0, 1), D("a1")], [L("aunwrap", "a2"), br(1, 0, 1), D("a2")], arcs=a2))
    A(P("raw-roundtrip", [spawn(2), L("aintoraw", "a1"), L("afromraw", "a1"), L("acount", "a1"), D("a1"), join(2)], [D("a2")], arcs=a2))
    A(P("raw-inc-dec", [L("aintoraw", "a1"), L("aclone", "a1", o2="r1"), spawn(2), L("afromraw", "a1"), D("a1"), join(2)], [D("r1")], arcs=a1))
    A(P("ptr-eq", [L("aclone", "a1", o2="b1"), L("aptreq", "a1", o2="b1"), L("aptreq", "a1", o2="z1"), D("a1"), D("b1"), D("z1")],
        arcs={"A": {"h0": ["a1"], "cell": ""}, "Z": {"h0": ["z1"], "cell": ""}}))
    A(P("two-arcs", SJ(2) + JJ(2), [D("a1"), L("acount", "z1"), D("z1")], [L("acount", "a2"), D("a2"), D("z2")],
        arcs={"A": {"h0": ["a1", "a2"], "cell": "pc"}, "Z": {"h0": ["z1", "z2"], "cell": "pd"}}))
    A(P("moved-into-thread", [I("spawn", "a2", v=2), rd("pc"), D("a1"), join(2)], [rd("pc"), D("a2")], arcs=a2))
    # the surviving owner re-clones its (by then unique) handle after the other one was dropped remotely:
    # the final drop must still be ordered after that remote drop
    A(P("reclone-after-remote-drop", [spawn(2), L("aclone", "a1", o2="b1"), D("b1"), D("a1"), join(2)], [rd("pc"), D("a2")], arcs=a2))
    A(P("reclone-raw-after-remote-drop", [spawn(2), L("aintoraw", "a1"), L("aclone", "a1", o2="r1"), D("r1"), D("a1"), join(2)], [rd("pc"), D("a2")], arcs=a2))
    A(P("reclone-twice", [spawn(2), spawn(3), L("aclone", "a1", o2="b1"), D("a1"), L("aclone", "b1", o2="c1"), D("c1"), D("b1"), join(2), join(3)],
        [rd("pc"), D("a2")], [rd("pc"), D("a3")], arcs=a3))
    return out


def arcs_family(tier, seed):
    rng = random.Random(seed * 977 + 23)
    progs = arc_shapes()
    for k in range(25 if tier == "quick" else 300):
        n = rng.choice([2, 2, 3])
        p = gen_sync(rng, rng.choice([["arc"], ["arc", "atom"], ["arc", "mutex"]]), n, 7 if n == 2 else 6)
        p["name"] = f"rand{k}"
        progs.append(p)
    return [normalize(p) for p in progs]


def leak_shapes():
    out = []
    A = out.append
    a2 = {"A": {"h0": ["a1", "a2"], "cell": ""}}
    D = lambda h: L("adrop", h)
    A(P("arc-all-dropped", SJ(1) + JJ(1) + [D("a1")], [D("a2")], arcs=a2))
    A(P("arc-one-kept", SJ(1) + JJ(1), [D("a2")], arcs=a2))
    A(P("arc-both-kept", SJ(1) + JJ(1), [ld("x")], arcs=a2))
    # schedule-dependent: the handle is dropped only when the CAS wins
    A(P("arc-drop-if-cas-wins", SJ(2) + JJ(2) + [D("a1")], [cas("x", 0, 1), br(1, 0, 1), D("a2")], [cas("x", 0, 2)], arcs=a2))
    A(P("arc-drop-if-seen", SJ(2) + JJ(2) + [D("a1")], [ld("x", "acq"), br(1, 1, 1), D("a2")], [st("x", 1, "rel")], arcs=a2))
    A(P("arc-unwrap-releases", [spawn(2), join(2), L("aunwrap", "a1")], [D("a2")], arcs=a2))
    A(P("arc-unwrap-fails-keeps", [L("aunwrap", "a1"), spawn(2), join(2)], [D("a2")], arcs=a2))
    A(P("arc-raw-released", [L("aintoraw", "a1"), L("afromraw", "a1"), D("a1"), D("a2")], arcs=a2))
    A(P("arc-raw-leaked", [L("aintoraw", "a1"), D("a2")], arcs=a2))
    A(P("arc-dec-strong", [L("aintoraw", "a1"), D("a1"), D("a2")], arcs=a2))
    A(P("track-dropped", [L("tnew", "k"), spawn(2), join(2)], [L("tdrop", "k")]))
    A(P("track-kept", [L("tnew", "k"), spawn(2), join(2)], [ld("x")]))
    A(P("track-forgotten", [L("tnew", "k"), L("tforget", "k")]))
    # a thread-local value owns a tracked allocation (the interpreter's thread-local values do): destroyed with its thread
    A(P("track-in-thread-local", SJ(2) + [I("tlwith", "T0")] + JJ(2), [I("tlwith", "T0"), I("tlwith", "T1")], [I("tlwith", "T1"), ld("x")]))
    A(P("track-in-thread-local-main-only", [I("tlwith", "T1"), I("tlwith", "T0"), spawn(2), join(2)], [ld("x")]))
    # released by the unwinding of a panic the program catches itself: released all the same
    A(P("track-dropped-by-caught-unwind", [L("tnew", "k"), spawn(2), join(2)], [L("tdrop", "k", k="unwind")]))
    A(P("track-dropped-by-caught-unwind-if-cas-wins", [L("tnew", "k")] + SJ(2) + JJ(2), [cas("x", 0, 1), br(1, 0, 1), L("tdrop", "k", k="unwind")], [cas("x", 0, 2)]))
    A(P("arc-dropped-by-caught-unwind", SJ(2) + JJ(2), [L("adrop", "a1", k="unwind")], [ld("x"), L("adrop", "a2", k="unwind")], arcs=a2))
    A(P("receiver-dropped-by-caught-unwind", [spawn(2), L("recv", "ch"), L("droprx", "ch", k="unwind"), join(2)], [L("send", "ch", v=1)]))
    A(P("track-drop-if-cas-wins", [L("tnew", "k")] + SJ(2) + JJ(2), [cas("x", 0, 1), br(1, 0, 1), L("tdrop", "k")], [cas("x", 0, 2)]))
    A(P("msg-left", [spawn(2), join(2)], [L("send", "ch", v=1)]))
    A(P("msg-drained-by-drop", [spawn(2), join(2), L("droprx", "ch")], [L("send", "ch", v=1), L("send", "ch", v=2)]))
    A(P("msg-received", [spawn(2), L("recv", "ch"), join(2)], [L("send", "ch", v=1)]))
    A(P("msg-left-if-late", [spawn(2), L("tryrecv", "ch"), join(2)], [L("send", "ch", v=1)]))
    # ... in every spawn order: the thread that polls may have been created after the sender, or be a child of it
    A(P("msg-left-if-late-child-polls", [spawn(2), L("send", "ch", v=1), join(2)], [L("tryrecv", "ch")]))
    A(P("msg-left-if-late-sender-spawned-first", SJ(2) + JJ(2), [L("send", "ch", v=1)], [L("tryrecv", "ch")]))
    A(P("msg-left-if-late-poller-spawned-first", SJ(2) + JJ(2), [L("tryrecv", "ch")], [L("send", "ch", v=1)]))
    A(P("track-left-if-poll-early", [L("tnew", "k")] + SJ(2) + JJ(2) + [L("droprx", "ch")], [L("send", "ch", v=1)], [L("tryrecv", "ch"), br(1, 0, 1), L("tdrop", "k")]))
    A(P("msg-left-if-second-poll-early", SJ(2) + JJ(2), [L("send", "ch", v=1), L("send", "ch", v=2)], [L("tryrecv", "ch"), L("tryrecv", "ch")]))
    A(P("F11-send-after-droprx", [L("droprx", "ch"), L("send", "ch", v=1)]))
    # leaks that depend on a uniqueness check racing with the drop of the other handle
    A(P("leak-if-unwrap-wins", [L("tnew", "k"), spawn(2), L("aunwrap", "a1"), br(1, 0, 2), L("tdrop", "k"), D("a1"), join(2)], [D("a2")], arcs=a2))
    A(P("leak-if-getmut-wins", [L("tnew", "k"), spawn(2), L("agetmut", "a1"), br(1, 0, 1), L("tdrop", "k"), D("a1"), join(2)], [D("a2")], arcs=a2))
    # the leak depends on a strong_count that races with a drop / clone of a thread that has just touched the Arc itself
    A(P("leak-if-count-read-after-remote-count-and-drop", [L("tnew", "k"), spawn(2), L("acount", "a1"), br(1, 2, 1), L("tdrop", "k"), D("a1"), join(2)],
        [L("acount", "a2"), D("a2")], arcs=a2))
    A(P("leak-if-count-read-before-remote-clone", [L("tnew", "k"), spawn(2), L("aclone", "a1", o2="a1b"), join(2), D("a1b"), D("a1")],
        [L("aclone", "a2", o2="a2b"), L("acount", "a2"), br(1, 4, 1), L("tdrop", "k"), D("a2b"), D("a2")], arcs=a2))
    A(P("leak-arc-if-count-is-1-after-remote-count", [spawn(2), L("acount", "a1"), br(1, 1, 1), L("aclone", "a1", o2="a1b"), D("a1"), join(2)],
        [L("acount", "a2"), D("a2")], arcs=a2))
    A(P("leak-if-count-is-1", [L("tnew", "k"), spawn(2), L("acount", "a1"), br(1, 2, 1), L("tdrop", "k"), D("a1"), join(2)], [D("a2")], arcs=a2))
    return out


def leaks(tier, seed):
    rng = random.Random(seed * 3571 + 29)
    progs = leak_shapes()
    for k in range(25 if tier == "quick" else 300):
        n = rng.choice([2, 2, 3])
        p = gen_sync(rng, rng.choice([["arc", "atom"], ["arc"], ["chan", "atom"], ["arc", "chan"]]), n, 7 if n == 2 else 6,
                     sc_atoms=False)
        # drop some release at random so that a leak becomes possible
        for th in p["threads"]:
            for j, i in enumerate(list(th)):
                if i["op"] in ("adrop", "droprx") and rng.random() < 0.25:
                    th[j] = I("nop")
        p["name"] = f"rand{k}"
        progs.append(p)
    return [normalize(fix_br(p)) for p in progs]


def fix_br_skips(q, t, a, b, skip):
    """instructions were inserted into thread t: programs with br are not used for regions"""
    return q


def await_shapes():
    out = []
    A = out.append
    for so, lo in itertools.product(["rlx", "rel", "sc"], ["rlx", "acq", "sc"]):
        A(P(f"await-1w[{so},{lo}]", SJ(2) + JJ(2), [st("y", 1), st("x", 1, so)], [await_("x", lo), ld("y")]))
    A(P("await-2w", SJ(2) + JJ(2), [st("y", 1), st("x", 1, "rel"), st("y", 2), st("x", 2, "rel")], [await_("x", "acq"), ld("y")]))
    A(P("await-2w-rlx", SJ(2) + JJ(2), [st("y", 1), st("x", 1), st("y", 2), st("x", 2)], [await_("x", "rlx"), ld("y"), ld("x")]))
    A(P("await-in-main", [spawn(2), await_("x", "acq"), ld("y"), join(2)], [st("y", 1), st("x", 1, "rel")]))
    A(P("await-then-write", SJ(2) + JJ(2) + [ld("z")], [st("x", 1, "rel"), ld("z")], [await_("x", "acq"), st("z", 1)]))
    A(P("await-before-ops", SJ(2) + JJ(2), [ld("y"), st("x", 1, "rel")], [await_("x", "acq"), st("y", 1)]))
    A(P("await-between-ops", SJ(2) + JJ(2), [st("y", 1), st("x", 1, "rel"), ld("z", "acq")], [ld("y"), await_("x", "acq"), st("z", 1, "rel")]))
    A(P("await-chain", SJ(3) + JJ(3), [st("x", 1, "rel")], [await_("x", "acq"), st("y", 1, "rel")], [await_("y", "acq"), ld("x")]))
    A(P("await-pingpong", SJ(2) + JJ(2), [st("x", 1, "rel"), await_("y", "acq"), ld("x")], [await_("x", "acq"), st("y", 1, "rel")]))
    A(P("await-rmw-writer", SJ(2) + JJ(2), [fadd("x", 10, "rel"), fadd("x", 20, "rel")], [await_("x", "acq"), ld("x")]))
    A(P("await-3threads", SJ(3) + JJ(3), [st("y", 1), st("x", 1, "rel")], [st("y", 2)], [await_("x", "acq"), ld("y")]))
    A(P("await-spin", SJ(2) + JJ(2), [st("y", 1), st("x", 1, "rel")], [I("await", "x", ord="acq", k="spin"), ld("y")]))
    # two stale stores seen in consecutive rounds while the waiter is the only runnable thread
    A(P("await-eq-2", SJ(2) + JJ(2), [st("x", 1), st("x", 2)], [await_("x", "rlx", v=2), ld("x")]))
    A(P("await-eq-2-acq", SJ(2) + JJ(2), [st("y", 1), st("x", 1, "rel"), st("x", 2, "rel")], [await_("x", "acq", v=2), ld("y")]))
    A(P("await-eq-3", SJ(2) + JJ(2), [st("x", 1), st("x", 2), st("x", 3)], [await_("x", "rlx", v=3)]))
    A(P("await-two-atomics", SJ(2) + JJ(2), [st("x", 1, "rel"), st("y", 1, "rel")], [await_("x", "acq"), await_("y", "acq"), ld("x")]))
    A(P("await-two-atomics-rlx", SJ(2) + JJ(2), [st("x", 1), st("y", 1)], [await_("y", "rlx"), await_("x", "rlx")]))
    A(P("await-under-lock", SJ(2) + JJ(2), [st("x", 1, "rel")] + CS("m", ld("y")), CS("m", await_("x", "acq"), st("y", 1))))
    # the waiter has yielded before; it then reads a store for the first time (its exit value), a later store to the same
    # atomic exists, and it reads the atomic again without yielding: the exit value may still be returned
    A(P("await-exit-value-reread", [spawn(2), I("yield"), await_("x", "rlx"), ld("d"), ld("x"), join(2)], [st("x", 1), st("x", 2), st("d", 1)]))
    A(P("await-exit-value-reread-spin", [spawn(2), I("yield"), I("await", "x", ord="rlx", k="spin"), ld("d"), ld("x"), join(2)],
        [st("x", 1), st("x", 2), st("d", 1)]))
    A(P("await-exit-value-reread-2writers", SJ(3) + JJ(3), [st("x", 1)], [st("x", 2), st("d", 1)],
        [I("yield"), await_("x", "rlx"), ld("d"), ld("x")]))
    A(P("await-twice-reread", [spawn(2), await_("y", "rlx"), await_("x", "rlx"), ld("d"), ld("x"), join(2)], [st("y", 1), st("x", 1), st("x", 2), st("d", 1)]))
    # at the spinner's yield point another thread is blocked (main, in a join) and exactly one thread can run; the
    # blocked thread establishes the condition only after it was unblocked
    A(P("await-main-sets-after-join", [spawn(2), spawn(3), join(3), st("x", 1, "rel"), join(2)], [await_("x", "acq"), ld("y")], [st("y", 1)]))
    A(P("await-main-sets-after-join-spin", [spawn(2), spawn(3), join(3), st("x", 1), join(2)], [I("await", "x", ord="rlx", k="spin")], [I("nop")]))
    A(P("await-main-sets-after-recv", [spawn(2), spawn(3), L("recv", "ch"), st("x", 1, "rel"), join(2), join(3), L("droprx", "ch")],
        [await_("x", "acq"), ld("y")], [st("y", 1), L("send", "ch", v=1)]))
    A(P("await-main-sets-after-lock", [spawn(2), spawn(3), ld("z", "acq")] + CS("m", st("x", 1, "rel")) + [join(2), join(3)],
        [await_("x", "acq")], CS("m", st("z", 1, "rel"), ld("y"))))
    # two concurrent stores (two writers, one store each); the waiter has seen one of them, spins on another flag and re-reads
    A(P("await-two-writers-reread", [spawn(2), spawn(3), await_("x", "rlx"), await_("d", "acq"), ld("x"), join(2), join(3)],
        [st("x", 1)], [st("x", 2), st("d", 1, "rel")]))
    A(P("await-two-writers-reread-yield-first", [spawn(2), spawn(3), I("yield"), await_("x", "rlx"), I("yield"), await_("d", "acq"), ld("x"), join(2), join(3)],
        [st("x", 1)], [st("x", 2), st("d", 1, "rel")]))
    A(P("await-two-writers-reread-thread", SJ(3) + JJ(3), [st("x", 1)], [st("x", 2), st("d", 1, "rel")],
        [await_("x", "rlx"), await_("d", "acq"), ld("x")]))
    # a thread that yielded before it spawned: the child's loads are judged by the child's own history, not by its parent's
    # yield point (the child may still read the older of two stores at its third load)
    A(P("await-then-spawn-reader", [spawn(2), spawn(3), I("yield"), await_("x", "rlx"), spawn(4), join(2), join(3), join(4)],
        [st("x", 1)], [st("y", 1), st("z", 1)], [ld("y"), ld("z"), ld("y")]))
    A(P("await-spin-then-spawn-reader", [spawn(2), spawn(3), I("yield"), I("await", "x", ord="rlx", k="spin"), spawn(4), join(2), join(3), join(4)],
        [st("x", 1)], [st("y", 1), st("z", 1)], [ld("y"), ld("z"), ld("y")]))
    A(P("yield-then-spawn-reader", [spawn(2), I("yield"), spawn(3), join(2), join(3)], [st("y", 1), st("z", 1)], [ld("y"), ld("z"), ld("y")]))
    # two waiters in a chain, in both spawn orders: the thread that yields may have a higher or a lower index than the one it waits for
    hs1 = [st("x", 1, "rel"), await_("y", "acq"), ld("z")]
    hs2 = [await_("x", "acq"), st("z", 1), st("y", 1, "rel")]
    A(P("await-handshake", SJ(2) + JJ(2), hs1, hs2))
    A(P("await-handshake-mirrored", SJ(2) + JJ(2), hs2, hs1))
    A(P("await-handshake-3", SJ(3) + JJ(3), hs1, hs2, [ld("z"), ld("y", "acq")]))
    # the spinner does something between its first yield and its loop; the setter may observe it.  (loom's yield_now makes
    # another thread take a step first; the unobserved stores to d give the setter a step that decides nothing, so that every
    # outcome of the reference semantics - where yield is a no-op - is also reachable under loom's reading of yield)
    wt = [st("d", 7), ld("x"), br(1, 0, 3), I("yield"), st("z", 1), await_("x", "rlx")]
    se = [st("d", 42), fadd("z", 0), st("x", 1)]
    A(P("await-mark-then-wait", SJ(2) + JJ(2), se, wt))
    A(P("await-mark-then-wait-mirrored", SJ(2) + JJ(2), wt, se))
    return out


def never_shapes():
    out = []
    A = out.append
    A(P("never-nowriter", SJ(2) + JJ(2), [st("y", 1)], [await_("x", "acq")]))
    A(P("never-zero-store", SJ(2) + JJ(2), [st("x", 0, "rel")], [await_("x", "acq")]))
    A(P("never-main", [spawn(2), await_("x", "rlx"), join(2)], [ld("x")]))
    return out


def awaits(tier, seed):
    rng = random.Random(seed * 7001 + 53)
    progs = await_shapes()
    for k in range(15 if tier == "quick" else 200):
        # a writer thread with 2-4 ops establishing x, a waiter with the await among 1-2 other ops
        locs = ["y", "z"]
        w = []
        nv = {"x": 1, "y": 1, "z": 1}
        nst = rng.choice([1, 1, 2])
        pos = sorted(rng.sample(range(4), nst))
        for j in range(4):
            if j in pos:
                w.append(st("x", nv["x"], rng.choice(["rlx", "rel", "sc"])))
                nv["x"] += 1
            elif rng.random() < 0.6:
                l = rng.choice(locs)
                w.append(st(l, nv[l], rng.choice(["rlx", "rel"])))
                nv[l] += 1
        wt = [await_("x", rng.choice(["rlx", "acq", "sc"]))]
        for _ in range(rng.choice([1, 2])):
            wt.insert(rng.randint(0, len(wt)), ld(rng.choice(locs + ["x"]), rng.choice(["rlx", "acq"])))
        p = P(f"rand{k}", SJ(2) + JJ(2), w, wt) if rng.random() < 0.7 else P(f"rand{k}", [spawn(2)] + wt + [join(2)], w)
        progs.append(p)
    return [normalize(p) for p in progs], [normalize(p) for p in never_shapes()]


def static_shapes():
    out = []
    A = out.append
    TW = lambda k: I("tlwith", k)
    LZ = lambda z, k="": I("lzget", z, k=k)
    A(P("tl-1thread", [TW("T0"), TW("T0"), TW("T1")]))
    A(P("tl-private", SJ(2) + [TW("T0")] + JJ(2) + [TW("T0")], [TW("T0"), TW("T0")], [TW("T0")]))
    A(P("tl-nested", SJ(1) + [I("tlnest", "T0", o2="T1"), TW("T1")] + JJ(1), [I("tlnest", "T1", o2="T0"), I("tlnest", "T0", o2="T1")]))
    A(P("tl-unused-thread", SJ(2) + JJ(2), [TW("T0")], [ld("x")]))
    A(P("tl-4threads", SJ(3) + [TW("T1")] + JJ(3), [TW("T1"), TW("T0")], [TW("T0")], [TW("T1"), TW("T1")]))
    A(P("lz-1thread", [LZ("Z0"), LZ("Z0")]))
    A(P("lz-shared", SJ(2) + [LZ("Z0")] + JJ(2), [LZ("Z0")], [LZ("Z0")]))
    A(P("lz-two-statics", SJ(2) + JJ(2) + [LZ("Z0")], [LZ("Z0"), LZ("Z1", "yield")], [LZ("Z1", "yield")]))
    A(P("lz-racing-init", SJ(2) + JJ(2), [LZ("Z1", "yield")], [LZ("Z1", "yield")]))
    A(P("lz-racing-init-3", SJ(3) + JJ(3), [LZ("Z1", "yield")], [LZ("Z1", "yield")], [LZ("Z1", "yield")]))
    # the initialiser has a scheduling point that is NOT a yield (an RMW on an atomic nobody reads): the racing initialisers
    # must still end up with one published instance
    RZ = lambda: I("lzget", "Z1", k="rmw")
    A(dict(P("lz-racing-init-rmw", SJ(2) + JJ(2), [st("lzc", 5), RZ()], [st("lzc", 6), RZ()]), atoms=["lzc"]))
    A(dict(P("lz-racing-init-rmw-3", SJ(3) + JJ(3), [fadd("x", 1), RZ()], [st("lzc", 5), RZ()], [st("lzc", 6), RZ()]), atoms=["lzc"]))
    # (no cell written by the initialiser here: whether loom explores two OVERLAPPING initialisers depends on the threads being
    # dependent elsewhere - an RMW inside the initialiser of a thread that does not initialise is never executed, so DPOR sees no
    # conflict; C17 claims soundness of what is explored, not that exploration)
    A(dict(P("lz-racing-init-rmw-data", SJ(2) + JJ(2), [st("lzc", 5), RZ(), I("lzread", "Z1"), LZ("Z1", "rmw")], [st("lzc", 6), RZ(), I("lzread", "Z1")]), atoms=["lzc"]))
    A(P("lz-publishes-data", SJ(2) + JJ(2), [LZ("Z0"), rd("c_Z0")], [LZ("Z0"), rd("c_Z0")]))
    A(P("lz-racy-publishes-data", SJ(2) + JJ(2), [LZ("Z1", "yield"), rd("c_Z1")], [LZ("Z1", "yield"), rd("c_Z1")]))
    LR = lambda z: I("lzread", z)
    A(P("lz-instance-data", SJ(2) + JJ(2), [LZ("Z0"), LR("Z0")], [LZ("Z0"), LR("Z0")]))
    A(P("lz-racy-instance-data", SJ(2) + JJ(2), [LZ("Z1", "yield"), LR("Z1")], [LZ("Z1", "yield"), LR("Z1")]))
    A(P("lz-racy-instance-data-3", SJ(3) + JJ(3), [LZ("Z1", "yield"), LR("Z1")], [LZ("Z1", "yield"), LR("Z1")], [ld("x"), LZ("Z1", "yield"), LR("Z1")]))
    # threads that are not joined: main may return first, the statics are destroyed with its closure, a later access is
    # refused (the model fails) - it never creates a second instance
    A(P("lz-unjoined-thread", [LZ("Z0"), spawn(2)], [ld("x"), LZ("Z0")]))
    A(P("lz-unjoined-thread-first-use", [spawn(2), ld("x")], [LZ("Z0")]))
    A(P("lz-unjoined-two-threads", [spawn(2), spawn(3), LZ("Z0")], [LZ("Z0")], [ld("x"), LZ("Z0")]))
    A(P("lz-unjoined-racy-init", [spawn(2), LZ("Z1", "yield")], [LZ("Z1", "yield"), LR("Z1")]))
    A(P("lz-init-in-main-before-spawn", [LZ("Z0")] + SJ(2) + JJ(2), [LZ("Z0"), rd("c_Z0")], [rd("c_Z0")]))
    # the destructor of a thread-local value runs before its thread counts as finished: whoever joins the thread sees what
    # the destructor did (the interpreter's value does a SeqCst fetch_add on tl0c / tl1c); `tlexit` marks its place
    TX = lambda k: I("tlexit", k)
    A(P("tl-destructor-before-join", [spawn(2), join(2), ld("tl0c")], [TW("T0"), TX("T0")]))
    A(P("tl-destructor-before-join-2keys", [spawn(2), join(2), ld("tl1c"), ld("tl0c")], [TW("T1"), TW("T0"), TX("T0"), TX("T1")]))
    A(P("tl-destructor-concurrent-reader", SJ(2) + JJ(2), [TW("T0"), TX("T0")], [ld("tl0c", "acq"), ld("x")]))
    A(P("tl-destructor-two-threads", SJ(2) + JJ(2) + [ld("tl0c")], [TW("T0"), TX("T0")], [ld("x"), TW("T0"), TX("T0")]))
    A(P("tl-destructor-unused-key", [spawn(2), join(2), ld("tl0c")], [ld("x"), TX("T0")]))
    A(P("tl-destructor-join-chain", [spawn(2), join(2), ld("tl0c")], [spawn(3), join(3)], [TW("T0"), TX("T0")]))
    # a key nested in itself, also as the thread's FIRST access of the key: one instance, initialised once
    TN = lambda a, b: I("tlnest", a, o2=b)
    A(P("tl-nested-in-itself-first-access", SJ(2) + JJ(2), [TN("T0", "T0"), TW("T0")], [TW("T0"), TN("T0", "T0")]))
    A(P("tl-nested-in-itself-both-keys", [TN("T1", "T1"), TN("T0", "T0"), TN("T0", "T1"), spawn(2), join(2)], [TN("T1", "T1")]))
    A(P("lz-and-tl", SJ(2) + JJ(2), [TW("T0"), LZ("Z0"), TW("T0")], [LZ("Z0"), TW("T0")]))
    A(P("lz-with-atomics", SJ(2) + JJ(2) + [ld("x")], [st("x", 1, "rel"), LZ("Z0")], [LZ("Z0"), ld("x", "acq")]))
    return out


def statics(tier, seed):
    rng = random.Random(seed * 9001 + 59)
    progs = static_shapes()
    for k in range(20 if tier == "quick" else 250):
        n = rng.choice([1, 2, 2, 3])
        ths = []
        for t in range(n + 1):
            th = []
            for _ in range(rng.choice([1, 2, 2, 3])):
                w = rng.choice(["tl", "tl", "lz", "lz", "nest", "atom"])
                if w == "tl": th.append(I("tlwith", rng.choice(["T0", "T1"])))
                elif w == "nest":
                    a = rng.choice(["T0", "T1"])
                    th.append(I("tlnest", a, o2="T1" if a == "T0" else "T0"))
                elif w == "lz":
                    z = rng.choice(["Z0", "Z1"])
                    th.append(I("lzget", z, k="yield" if z == "Z1" else ""))
                    if rng.random() < 0.4: th.append(rd("c_" + z))
                else: th.append(rng.choice([ld("x", "acq"), fadd("x", 1, "acqrel")]))
            ths.append(th)
        main = [spawn(t) for t in range(2, n + 2)] + ths[0] + [join(t) for t in range(2, n + 2)]
        progs.append(P(f"rand{k}", main, *ths[1:]))
    return [normalize(p) for p in progs]


def future_shapes():
    out = []
    A = out.append
    BO = lambda k, ordr="acq": I("blockon", "w", o2="f", k=k, ord=ordr)
    WK = I("wake", "w")
    for k in ("reg-check", "check-reg"):
        A(P(f"wake-1[{k}]", [spawn(2), BO(k), join(2)], [st("f", 1, "rel"), WK]))
        A(P(f"wake-1-rlx[{k}]", [spawn(2), BO(k, "rlx"), join(2)], [st("f", 1, "rlx"), WK]))
        A(P(f"wake-twice[{k}]", [spawn(2), BO(k), join(2)], [st("f", 1, "rel"), WK, WK]))
        A(P(f"wake-before-flag[{k}]", [spawn(2), BO(k), join(2)], [WK, st("f", 1, "rel"), WK]))
        A(P(f"two-wakers[{k}]", [spawn(2), spawn(3), BO(k), join(2), join(3)], [st("f", 1, "rel"), WK], [WK]))
        A(P(f"two-setters[{k}]", [spawn(2), spawn(3), BO(k), join(2), join(3)], [st("f", 1, "rel"), WK], [st("f", 2, "rel"), WK]))
        A(P(f"never-woken[{k}]", [spawn(2), BO(k), join(2)], [ld("x")]))
        A(P(f"flag-no-wake[{k}]", [spawn(2), BO(k), join(2)], [st("f", 1, "rel")]))
        A(P(f"wake-no-flag[{k}]", [spawn(2), BO(k), join(2)], [WK]))
        A(P(f"blockon-in-thread[{k}]", [spawn(2), st("f", 1, "rel"), WK, join(2)], [BO(k)]))
        A(P(f"handover[{k}]", [spawn(2), BO(k), rd("c"), join(2)], [wr("c"), st("f", 1, "rel"), WK]))
        # every pair of positions (waker's thread index, future's thread index): a wake reaches a thread created long after
        # the waker as well as one created before it
        A(P(f"blockon-in-last-thread-woken-by-main[{k}]", [spawn(2), spawn(3), st("f", 1, "rel"), WK, join(2), join(3)], [ld("x")], [BO(k)]))
        A(P(f"blockon-in-last-thread-woken-by-first[{k}]", [spawn(2), spawn(3), spawn(4), join(2), join(3), join(4)], [st("f", 1, "rel"), WK], [ld("x")], [BO(k)]))
        A(P(f"blockon-in-first-thread-woken-by-last[{k}]", [spawn(2), spawn(3), spawn(4), join(2), join(3), join(4)], [BO(k)], [ld("x")], [st("f", 1, "rel"), WK]))
        A(P(f"blockon-in-main-woken-by-last[{k}]", [spawn(2), spawn(3), spawn(4), BO(k), join(2), join(3), join(4)], [ld("x")], [ld("x")], [st("f", 1, "rel"), WK]))
        A(P(f"already-ready[{k}]", [st("f", 1), BO(k)]))
        # the waker stores an intermediate value before the final one; the future is ready at the final value only. A wake
        # that arrives during a poll is never lost, also when the following wait returns spuriously (it stays pending)
        B2 = lambda ordr: I("blockon", "w", o2="f", k=k, ord=ordr, v=2)
        for ordr in ("acq", "rlx"):
            A(P(f"blockon-two-stores[{k},{ordr}]", [spawn(2), B2(ordr), join(2)], [st("f", 1, "rel"), st("f", 2, "rel"), WK]))
            A(P(f"blockon-two-stores-in-thread[{k},{ordr}]", [spawn(2), st("f", 1, "rel"), st("f", 2, "rel"), WK, join(2)], [B2(ordr)]))
        A(P(f"two-blockons[{k}]", [spawn(2), BO(k), BO(k), join(2)], [st("f", 1, "rel"), WK]))
        # one AtomicWaker outlives a block_on: the second call's registration must replace the first one's
        BG = I("blockon", "w", o2="g", k=k, ord="acq")
        A(P(f"two-blockons-two-flags[{k}]", [spawn(2), BO(k), BG, join(2)], [st("f", 1, "rel"), st("g", 1, "rel"), WK]))
        A(P(f"two-blockons-two-wakes[{k}]", [spawn(2), BO(k), BG, join(2)], [st("f", 1, "rel"), WK, st("g", 1, "rel"), WK]))
    # raw wakers: clones of the block_on waker in plain slots, no AtomicWaker lock in between; the wakers
    # first wait (relaxed, no ordering) until the future announced that it stashed its waker
    W8 = await_("fr", "rlx")
    for o in ("rlx", "acq"):
        so = "rlx" if o == "rlx" else "rel"
        R1 = I("blockon", "sA", o2="f", k="raw", ord=o)
        R2 = I("blockon", "sA", o2="f", k="raw", ord=o, ord2="sB", w=1)
        A(P(f"raw-one-waker[{o}]", [spawn(2), R1, join(2)], [W8, st("f", 1, so), I("wakeslot", "sA")]))
        A(P(f"raw-wakeref[{o}]", [spawn(2), R1, join(2)], [W8, st("f", 1, so), I("wakeref", "sA")]))
        A(P(f"raw-wakeref-twice[{o}]", [spawn(2), R1, join(2)], [W8, I("wakeref", "sA"), st("f", 1, so), I("wakeref", "sA")]))
        A(P(f"raw-two-wakers[{o}]", [spawn(2), spawn(3), R2, join(2), join(3)], [W8, st("f", 1, so), I("wakeslot", "sA")],
            [W8, st("f2", 1, so), I("wakeslot", "sB")]))
        # an intermediate store before the final one; the wake arrives during the poll (the waker waits for the announcement only)
        R3 = I("blockon", "sA", o2="f", k="raw", ord=o, v=2)
        A(P(f"raw-two-stores[{o}]", [spawn(2), R3, join(2)], [W8, st("f", 1, so), st("f", 2, so), I("wakeslot", "sA")]))
        A(P(f"raw-two-stores-wakeref[{o}]", [spawn(2), R3, join(2)], [W8, st("f", 1, so), st("f", 2, so), I("wakeref", "sA")]))
        A(P(f"raw-two-stores-in-thread[{o}]", [spawn(2), W8, st("f", 1, so), st("f", 2, so), I("wakeref", "sA"), join(2)], [R3]))
        A(P(f"raw-never-woken[{o}]", [spawn(2), R1, join(2)], [W8, st("f", 1, so)]))
    return out


def futures_family(tier, seed):
    return [normalize(p) for p in future_shapes()]


def panic_base():
    """programs covering the situations in which a panic can strike (DESIGN.md §6 C06)"""
    out = []
    A = out.append
    a2 = {"A": {"h0": ["a1", "a2"], "cell": ""}}
    D = lambda h: L("adrop", h)
    A(P("pb-atomics", SJ(2) + JJ(2), [st("x", 1, "rel"), ld("y", "acq")], [st("y", 1, "rel"), ld("x", "acq")]))
    A(P("pb-mutex-held", SJ(2) + JJ(2), CS("m", ld("x"), st("x", 1)), CS("m", ld("x"), st("x", 2))))
    A(P("pb-nested-locks", SJ(2) + JJ(2), CS("m", *CS("n", ld("x"))), CS("m", ld("x"))))
    A(P("pb-rw-guards", SJ(2) + JJ(2), [L("read", "l"), ld("x"), L("unlockr", "l")], [L("write", "l"), st("x", 1), L("unlockw", "l")]))
    A(P("pb-blocked-in-recv", [spawn(2), spawn(3), L("recv", "ch"), join(2), join(3), L("droprx", "ch")], [ld("x"), L("send", "ch", v=1)], [ld("x")]))
    A(P("pb-blocked-in-join", [spawn(2), join(2), ld("x")], [ld("x"), st("x", 1)]))
    A(P("pb-parked", [spawn(2), ld("x"), unpark(2), join(2)], [L("park"), ld("x")]))
    A(P("pb-cv-waiter", SJ(2) + JJ(2), CS("m", L("cvwait", "cv", o2="m")), [ld("x")] + CS("m", L("notify1", "cv"))))
    A(P("pb-arc-in-table", SJ(1) + [ld("x"), D("a1")] + JJ(1), [ld("x"), D("a2")], arcs=a2))
    A(P("pb-arc-in-frame", SJ(1) + [L("ahold", "a1"), ld("x"), L("adropheld", "a1")] + JJ(1), [L("ahold", "a2"), ld("x"), L("adropheld", "a2")], arcs=a2))
    A(P("pb-arc-moved-into-unstarted-thread", [I("spawn", "a2", v=2), ld("x"), D("a1"), join(2)], [ld("x"), D("a2")], arcs=a2))
    # a deadlock detected by a thread that owns a loom Arc in its frame (the Arc<(Mutex, Condvar)> idiom):
    # the report must come out as a panic, whatever kind of blocking is involved
    A(P("pb-deadlock-join-arc-in-frame", [spawn(2), L("ahold", "a1"), join(2), L("adropheld", "a1")], [L("ahold", "a2"), L("recv", "ch"), L("adropheld", "a2")], arcs=a2))
    A(P("pb-deadlock-cv-arc-in-frame", SJ(2) + JJ(2), [L("ahold", "a1")] + CS("m", L("cvwait", "cv", o2="m")) + [L("adropheld", "a1")],
        [L("ahold", "a2"), ld("x")] + CS("m", L("notify1", "cv")) + [L("adropheld", "a2")], arcs=a2))
    A(P("pb-deadlock-locks-arc-in-frame", SJ(2) + JJ(2), [L("ahold", "a1")] + CS("m", ld("x"), *CS("n")) + [L("adropheld", "a1")],
        [L("ahold", "a2")] + CS("n", ld("x"), *CS("m")) + [L("adropheld", "a2")], arcs=a2))
    # ... or a guard of any kind (the unwinding thread releases a lock of an execution that has no active thread any more)
    RD = lambda l, *b: [L("read", l)] + list(b) + [L("unlockr", l)]
    WR = lambda l, *b: [L("write", l)] + list(b) + [L("unlockw", l)]
    A(P("pb-deadlock-holding-read-guard", [spawn(2), join(2)], RD("l", L("recv", "ch"))))
    A(P("pb-deadlock-holding-write-guard", [spawn(2), join(2)], WR("l", L("recv", "ch"))))
    A(P("pb-deadlock-rw-inversion", SJ(2) + JJ(2), WR("l", ld("x"), *WR("k")), WR("k", ld("x"), *WR("l"))))
    A(P("pb-deadlock-read-then-write-inversion", SJ(2) + JJ(2), RD("l", ld("x"), *WR("k")), RD("k", ld("x"), *WR("l"))))
    A(P("pb-deadlock-holding-mutex-and-read-guard", SJ(2) + JJ(2), CS("m", *RD("l", ld("x"), *CS("n"))), CS("n", *RD("l", ld("x"), *CS("m")))))
    A(P("pb-deadlock-main-holding-read-guard", [spawn(2)] + RD("l", join(2)), [L("recv", "ch")]))
    A(P("pb-deadlock-parked-holding-write-guard", [spawn(2), join(2)], WR("l", L("park"))))
    A(P("pb-deadlock-nwait-holding-read-guard", [spawn(2), join(2)], RD("l", L("nwait", "nt"))))
    # ... or any value whose destructor uses a loom object: an atomic (AGuard loads it in Drop), a Receiver with a message pending
    G = lambda o="x": I("aguard", o, k="always")
    A(P("pb-deadlock-atomic-in-drop-main", [G(), I("park")]))
    A(P("pb-deadlock-atomic-in-drop-thread", [spawn(2), join(2)], [G(), ld("y"), I("park")]))
    A(P("pb-deadlock-atomic-in-drop-both", [G("y"), spawn(2), ld("x"), join(2)], [G(), ld("y"), L("recv", "ch")]))
    A(P("pb-deadlock-atomic-in-drop-lock-inversion", SJ(2) + JJ(2), [G()] + CS("m", ld("y"), *CS("n")), [G("y")] + CS("n", ld("y"), *CS("m"))))
    A(P("pb-deadlock-atomic-in-drop-cv", SJ(2) + JJ(2), [G()] + CS("m", L("cvwait", "cv", o2="m")), [G("y"), ld("x")] + CS("m", st("x", 1))))
    A(P("pb-deadlock-rx-pending-in-frame", [L("send", "ch", v=1), L("rxhold", "ch"), I("park"), L("rxrel", "ch"), L("droprx", "ch")]))
    A(P("pb-deadlock-rx-pending-in-thread-frame", [spawn(2), L("send", "ch", v=1), join(2), L("droprx", "ch")], [L("rxhold", "ch"), ld("x"), I("park"), L("rxrel", "ch")]))
    A(P("pb-panic-atomic-in-drop", SJ(2) + JJ(2), [G(), ld("y"), st("x", 1)], [G("y"), ld("x"), st("y", 1)]))
    # the panic is raised INSIDE the closure of with / with_mut, and a destructor of the unwinding frame touches the same atomic
    A(P("pb-panic-in-wmut", [spawn(2), join(2), I("wmut", "x", v=3, k="panic")], [ld("y")]))
    A(P("pb-panic-in-wmut-guard", [I("aguard", "x"), spawn(2), join(2), I("wmut", "x", v=3, k="panic")], [ld("y")]))
    A(P("pb-panic-in-wmut-guard-late", [I("aguard", "x")] + SJ(2) + JJ(2) + [ld("z"), br(1, 1, 1), I("wmut", "x", v=3, k="panic")],
        [st("z", 1, "rel")], [ld("z", "acq")]))
    A(P("pb-panic-in-wmut-guard-thread", [spawn(2), ld("y"), join(2)], [I("aguard", "x"), ld("y"), I("wmut", "x", v=3, k="panic")]))
    A(P("pb-guard-plain", [spawn(2), ld("y"), join(2)], [I("aguard", "x"), st("x", 1), ld("y"), I("wmut", "x", v=3), st("x", 2)]))
    # the thread blocks (for ever: a deadlock report) while a cell access is open
    A(P("pb-deadlock-inside-cell-read", [spawn(2), join(2)], [ld("y"), I("rd", "c", k="parkin"), I("park")]))
    A(P("pb-deadlock-inside-cell-write", [spawn(2), join(2)], [ld("y"), I("wr", "c", k="parkin"), I("park")]))
    A(P("pb-deadlock-inside-cell-read-main", [spawn(2), I("rd", "c", k="parkin"), I("park"), join(2)], [ld("y")]))
    A(P("pb-unparked-inside-cell-read", [spawn(2), unpark(2), join(2)], [ld("y"), I("rd", "c", k="parkin"), I("park"), ld("y")]))
    A(P("pb-panic-in-cell-read", [spawn(2), join(2), I("rd", "c", k="panic")], [L("wr", "c")]))
    A(P("pb-panic-in-cell-write", [spawn(2), join(2), I("wr", "c", k="panic")], [L("rd", "c")]))
    A(P("pb-panic-in-cell-write-then-reuse", SJ(2) + JJ(2), [I("aguard", "x"), ld("y"), I("wr", "c", k="panic")], [ld("y"), st("x", 1)]))
    A(P("pb-track", [L("tnew", "k"), spawn(2), ld("x"), join(2)], [ld("x"), L("tdrop", "k")]))
    A(P("pb-track-moved-into-unstarted-thread", [L("tnew", "k"), I("spawn", k="k", v=2), ld("x"), join(2)], [ld("x"), L("tdrop", "k")]))
    A(P("pb-receiver-moved-into-unstarted-thread", [I("spawn", o2="ch", v=2), ld("x"), L("send", "ch", v=1), join(2)],
        [L("recv", "ch"), ld("x"), L("droprx", "ch")]))
    A(P("pb-thread-local", SJ(1) + [I("tlwith", "T0"), ld("x")] + JJ(1), [I("tlwith", "T0"), I("tlwith", "T1"), ld("x")]))
    A(P("pb-lazy-static", SJ(1) + [I("lzget", "Z0"), ld("x")] + JJ(1), [I("lzget", "Z0"), ld("x")]))
    A(P("pb-notify", [spawn(2), L("nwait", "nt"), join(2)], [ld("x"), L("notify", "nt")]))
    # violations loom detects itself (assertions on cell usage) while guards are alive
    A(P("pb-read-inside-own-write", [spawn(2), ld("x"), L("wrrd", "c"), join(2)], [ld("x")]))
    A(P("pb-write-inside-own-read", [spawn(2), ld("x"), join(2)], [ld("x"), L("rdwr", "c")]))
    A(P("pb-read-inside-own-write-late", SJ(2) + JJ(2), [st("x", 1, "rel")], [ld("x", "acq"), br(1, 1, 1), L("wrrd", "c")]))
    A(P("pb-3threads", SJ(3) + JJ(3), [fadd("x", 1, "acqrel")], [fadd("x", 2, "acqrel")], CS("m", ld("x"))))
    return out


def limit_crash_programs():
    """programs for which a LIMIT violation (max_threads, max_branches) strikes while loom objects are owned by the
    closure being spawned, by frames, or by guards: the violation must come out as a panic all the same"""
    keep = ("pb-arc-moved-into-unstarted-thread", "pb-track-moved-into-unstarted-thread", "pb-receiver-moved-into-unstarted-thread",
            "pb-arc-in-frame", "pb-mutex-held", "pb-rw-guards", "pb-nested-locks", "pb-guard-plain")
    out = [p for p in panic_base() if p["name"] in keep]
    a2 = {"A": {"h0": ["a1", "a2"], "cell": ""}}
    a3 = {"A": {"h0": ["a1", "a2", "a3"], "cell": ""}}
    # the LAST spawn is the one that exceeds a max_threads of (threads - 1)
    out.append(P("lim-second-spawn-owns-arc", [spawn(2), I("spawn", "a2", v=3), ld("x"), L("adrop", "a1"), join(2), join(3)], [ld("x")],
                 [ld("x"), L("adrop", "a2")], arcs=a2))
    out.append(P("lim-spawn-owns-arc-while-lock-held", [L("lock", "m"), I("spawn", "a2", v=2), ld("x"), L("unlock", "m"), L("adrop", "a1"), join(2)],
                 [ld("x"), L("adrop", "a2")], arcs=a2))
    out.append(P("lim-nested-spawn-owns-arc", [spawn(2), ld("x"), L("adrop", "a1"), join(2)],
                 [I("spawn", "a3", v=3), ld("x"), L("adrop", "a2"), join(3)], [ld("x"), L("adrop", "a3")], arcs=a3))
    out += [with_builder(p) for p in out if p.get("name", "").startswith("lim-")]
    # every operation of the Arc API as the point at which the branch limit strikes (each has one or two scheduling points of
    # its own, and a handle that is being consumed is in an intermediate state between them)
    ops = [L("aclone", "a1", o2="a1b"), L("adrop", "a1b"), L("acount", "a1"), L("adrop", "a2"), L("agetmut", "a1"), L("aunwrap", "a1")]
    out.append(P("lim-arc-api-main", list(ops), arcs=a2))
    out.append(P("lim-arc-api-thread", [spawn(2), join(2)], list(ops), arcs=a2))
    out.append(P("lim-arc-api-unwrap-first", [L("adrop", "a2"), L("aunwrap", "a1")], arcs=a2))
    out.append(P("lim-arc-api-unwrap-fails", [L("aunwrap", "a1"), L("adrop", "a2"), L("adrop", "a1")], arcs=a2))
    out.append(P("lim-arc-api-raw", [L("adrop", "a2"), L("aintoraw", "a1"), L("afromraw", "a1"), L("adrop", "a1")], arcs=a2))
    # the payload's destructor performs a tracked access of its own (the interpreter's Payload does, on the payload cell): when
    # the limit strikes inside the Arc's decrement, the unwinding drops the payload without the decrement's synchronisation
    a2c = {"A": {"h0": ["a1", "a2"], "cell": "pc"}}
    out.append(P("lim-arc-payload-cell", [spawn(2), rd("pc"), L("adrop", "a1"), join(2)], [rd("pc"), L("adrop", "a2")], arcs=a2c))
    out.append(P("lim-arc-payload-cell-main-last", [spawn(2), rd("pc"), join(2), L("adrop", "a1")], [rd("pc"), L("adrop", "a2")], arcs=a2c))
    # the limit strikes at a BLOCKING operation (the thread is already marked blocked) while its frame owns a loom Arc: the
    # unwinding performs the Arc's decrement on a thread that cannot run
    out.append(P("lim-blocking-op-with-arc-in-frame", SJ(2) + JJ(2), [L("ahold", "a1"), L("lock", "m"), ld("x"), L("unlock", "m"), L("adropheld", "a1")],
                 [L("ahold", "a2"), L("lock", "m"), ld("x"), L("unlock", "m"), L("adropheld", "a2")], arcs=a2))
    out.append(P("lim-join-with-arc-in-frame", [spawn(2), L("ahold", "a1"), join(2), L("adropheld", "a1")], [ld("x"), ld("x"), L("adrop", "a2")], arcs=a2))
    out.append(P("lim-recv-with-guard-in-frame", [spawn(2), I("aguard", "x", k="always"), L("recv", "ch"), join(2), L("droprx", "ch")], [ld("y"), L("send", "ch", v=1)]))
    # every kind of path entry as the one that does not fit: schedule entries, load entries, and the spurious decisions of
    # Notify::wait / block_on (each budget from 1 to need - 1 is run: the limit is reported at every one of them)
    out.append(P("lim-notify-wait", [spawn(2), L("nwait", "nt"), ld("x"), join(2)], [ld("x"), L("notify", "nt"), ld("x")]))
    out.append(P("lim-notify-wait-in-thread", [spawn(2), ld("x"), L("notify", "nt"), join(2)], [ld("x"), L("nwait", "nt"), ld("x")]))
    # (the wait late in the path: an unchecked push at a full path doubles the vector, which only goes unnoticed when the
    # doubled capacity covers the rest of the execution)
    out.append(P("lim-notify-wait-late", [spawn(2)] + [ld("x")] * 6 + [L("nwait", "nt"), ld("x"), join(2)], [L("notify", "nt")]))
    out.append(P("lim-blockon-late", [spawn(2)] + [ld("x")] * 5 + [I("blockon", "w", o2="f", k="reg-check", ord="acq"), join(2)], [st("f", 1, "rel"), I("wake", "w")]))
    out.append(P("lim-blockon", [spawn(2), I("blockon", "w", o2="f", k="reg-check", ord="acq"), join(2)], [st("f", 1, "rel"), I("wake", "w")]))
    out.append(P("lim-loads", SJ(2) + JJ(2), [st("x", 1), st("x", 2)], [ld("x"), ld("x")]))
    out.append(P("lim-arc-api-thread-unwrap-after-join", [spawn(2), join(2), L("aunwrap", "a1")], [ld("x"), L("adrop", "a2")], arcs=a2))
    return [normalize(p) for p in out]


def crash_points(tier, seed):
    """every instruction index of every thread of every base program gets a panic; plus guarded panics"""
    import copy
    rng = random.Random(seed * 1009 + 61)
    progs = []
    for p in panic_base():
        pts = [(t, i) for t in range(len(p["threads"])) for i in range(len(p["threads"][t]) + 1)
               if not (i > 0 and p["threads"][t][i - 1].get("k") == "parkin")]       # (a parkin access and its park are one step)
        if tier == "quick":
            rng.shuffle(pts)
            pts = pts[:5]
        for (t, i) in pts:
            q = copy.deepcopy(p)
            q["threads"][t].insert(i, I("panic"))
            q["name"] = p["name"] + f"+panic[{t + 1}:{i}]"
            progs.append(q)
        # guarded: panic only if the last value loaded before the point equals v (reachable in some iterations only)
        for (t, i) in pts[:3]:
            th = p["threads"][t]
            nret = sum(1 for ins in th[:i] if ins["op"] in RET_OPS)
            if nret == 0:
                continue
            for v in (0, 1):
                q = copy.deepcopy(p)
                q["threads"][t][i:i] = [br(nret, v, 1), I("panic")]
                q["name"] = p["name"] + f"+panic-if[{t + 1}:{i}:r{nret}=={v}]"
                progs.append(q)
        progs.append(copy.deepcopy(p))
    return [normalize(fix_br_keep(p)) for p in progs]


def fix_br_keep(p):
    return p


def iso_base():
    """programs that touch every kind of per-execution state (C16); the second list are 'disturbers',
    some of which fail on purpose and leave state behind"""
    a2 = {"A": {"h0": ["a1", "a2"], "cell": "pc"}}
    D = lambda h: L("adrop", h)
    A = [
        wrap([[st("y", 1), st("x", 1, "rel")], [ld("x", "acq"), ld("y")]], ["x"], name="iso-MP"),
        wrap([[st("x", 1), fence("sc"), ld("y")], [st("y", 1), fence("sc"), ld("x")]], [], name="iso-SB-scfence"),
        P("iso-5threads", SJ(4) + JJ(4), [st("x", 1)], [st("y", 1)], [ld("x")], [ld("y")]),
        P("iso-mutex-cv", SJ(2) + JJ(2), CS("m", wr("c_m"), L("notify1", "cv")), CS("m", rd("c_m"))),
        P("iso-rw", SJ(2) + JJ(2), [L("read", "l"), rd("c_l"), L("unlockr", "l")], [L("write", "l"), wr("c_l"), L("unlockw", "l")]),
        P("iso-chan", [spawn(2), spawn(3), L("recv", "ch"), L("recv", "ch"), join(2), join(3), L("droprx", "ch")], [L("send", "ch", v=1)], [L("send", "ch", v=2)]),
        P("iso-notify-park", [spawn(2), L("nwait", "nt"), unpark(2), join(2)], [L("notify", "nt"), L("park")]),
        P("iso-arc", SJ(1) + [rd("pc"), D("a1")] + JJ(1), [rd("pc"), D("a2")], arcs=a2),
        P("iso-track", [L("tnew", "k"), spawn(2), join(2)], [L("tdrop", "k")]),
        P("iso-statics", SJ(2) + [I("tlwith", "T0")] + JJ(2), [I("tlwith", "T0"), I("lzget", "Z0"), I("tlwith", "T0")], [I("lzget", "Z0"), I("tlwith", "T1")]),
        P("iso-lazy-racy", SJ(2) + JJ(2), [I("lzget", "Z1", k="yield")], [I("lzget", "Z1", k="yield"), I("lzget", "Z0"), rd("c_Z0")]),
        P("iso-await", SJ(2) + JJ(2), [st("y", 1), st("x", 1, "rel")], [await_("x", "acq"), ld("y")]),
        P("iso-scfence-stale", [spawn(2), fence("sc"), ld("f"), ld("x"), join(2)], [st("x", 1), st("f", 1), fence("sc")]),
        P("iso-scfence-3", SJ(3) + JJ(3), [st("x", 1), fence("sc"), ld("y")], [st("y", 1), fence("sc"), ld("x")], [fence("sc"), ld("x"), ld("y")]),
        # the FIRST object the model creates (atoms are created in name order) is an atomic that main reads after the join;
        # in a later iteration main fences before it has synchronised with anything: only this iteration's stores count
        P("iso-first-object-flag", [spawn(2), ld("x"), fence("acq"), ld("d"), join(2), ld("a", "acq")], [st("d", 1), st("x", 1), st("a", 1, "rel")]),
        P("iso-first-object-flag-thread", SJ(2) + JJ(2), [st("d", 1), st("x", 1), st("a", 1, "rel")], [ld("x"), fence("acq"), ld("d"), await_("a", "acq")]),
        # a thread yields while every other thread is blocked (it is rescheduled still yielded), then unblocks one
        P("iso-yield-while-others-blocked", [L("lock", "m"), spawn(2), I("yield"), I("yield"), L("unlock", "m"), L("lock", "m"), ld("x"), L("unlock", "m"), join(2)],
          [ld("y"), L("lock", "m"), st("x", 1), L("unlock", "m")]),
        P("iso-yield-while-others-blocked-3", [L("lock", "m"), spawn(2), spawn(3), I("yield"), st("y", 1), I("yield"), L("unlock", "m"), L("lock", "m"), ld("x"), L("unlock", "m"),
                                                join(2), join(3)],
          [ld("y"), L("lock", "m"), fadd("x", 1), L("unlock", "m")], [ld("y"), L("lock", "m"), fadd("x", 2), L("unlock", "m")]),
        # a thread created with a large stack (thread::Builder::stack_size) that really uses it, next to default-sized threads,
        # created by two different threads in both orders (its loom thread index differs from iteration to iteration): every
        # iteration gives every thread the stack its spawn asked for
        P("iso-large-stack-thread", [spawn(2), st("x", 1), spawn(3), join(2), join(3)], [ld("x"), I("spawn", v=4, ord="builder"), join(4)], [ld("y")],
          [I("stack", v=160), ld("y")]),
    ]
    B = [
        P("dis-leak-msg", [spawn(2), join(2)], [L("send", "ch", v=7), L("send", "ch", v=8)]),
        P("dis-leak-arc", SJ(1) + JJ(1), [ld("x")], arcs={"A": {"h0": ["a1", "a2"], "cell": ""}}),
        P("dis-deadlock", SJ(2) + JJ(2), CS("m", ld("x"), *CS("n")), CS("n", ld("x"), *CS("m"))),
        P("dis-race", [spawn(2), wr("c"), join(2)], [rd("c")]),
        P("dis-panic-in-region", SJ(2) + JJ(2), [I("stopx"), st("x", 1), I("panic")], [ld("x"), I("tlwith", "T0"), I("lzget", "Z0")]),
        P("dis-statics-5threads", SJ(4) + JJ(4), [I("tlwith", "T0"), I("lzget", "Z0")], [I("tlwith", "T1"), fence("sc")], [I("lzget", "Z1", k="yield")], [st("x", 5, "sc")]),
        P("dis-ok-big", SJ(3) + JJ(3) + [ld("x"), ld("y")], [st("x", 1), st("y", 1, "rel")], [ld("y", "acq"), fadd("x", 10)], CS("m", ld("x"))),
    ]
    return [normalize(p) for p in A], [normalize(p) for p in B]


# ============================================================================================
# Exhaustive small-scope families: ALL programs over a small alphabet (up to thread / location symmetry)
# ============================================================================================
def _assign_values(threads):
    """give every store / swap a distinct value per location (1, 2, ...) in thread order"""
    nxt = {}
    out = []
    for th in threads:
        t = []
        for i in th:
            i = dict(i)
            if i["op"] in ("st", "rmw", "send"):
                k = i["o"]
                nxt[k] = nxt.get(k, 0) + 1
                i["v"] = nxt[k]
            t.append(i)
        out.append(t)
    return out


def _canon_threads(threads):
    """canonical form under thread permutation and x<->y renaming (values ignored)"""
    def key(ths, ren):
        return tuple(sorted(tuple((i["op"], ren.get(i["o"], i["o"]), i["ord"], i["k"], i.get("o2", "")) for i in th) for th in ths))
    return min(key(threads, {}), key(threads, {"x": "y", "y": "x"}))


def exhaustive_atomics(nthreads=2, nops=2):
    """all programs: nthreads spawned threads x exactly nops operations each over
    {ld, st, swap, fence} x {x, y} x orderings; main joins and reads both locations"""
    ops = []
    for x in ("x", "y"):
        ops += [ld(x, "rlx"), ld(x, "acq"), st(x, 0, "rlx"), st(x, 0, "rel"), swap(x, 0, "rlx"), swap(x, 0, "acqrel")]
    ops += [fence("acqrel"), fence("sc")]
    seen, out = set(), []
    per_thread = list(itertools.product(ops, repeat=nops))
    for combo in itertools.product(per_thread, repeat=nthreads):
        threads = [list(c) for c in combo]
        if all(i["op"] == "fence" for th in threads for i in th):
            continue
        # a fence first or last in a thread orders nothing: skip the redundant variants
        if any(th[0]["op"] == "fence" or th[-1]["op"] == "fence" for th in threads if len(th) >= 2):
            continue
        locs = {i["o"] for th in threads for i in th if i["o"]}
        if locs == {"y"}:
            continue
        k = _canon_threads(threads)
        if k in seen:
            continue
        seen.add(k)
        p = wrap(_assign_values(threads), sorted(locs), name="ex", tags=["litmus", "exhaustive"])
        out.append(p)
    return out


def exhaustive_sync():
    """all programs: 2 spawned threads x 2 blocks each over SeqCst accesses to x, critical sections on m,
    try_lock sections, channel sends; main receives what was sent, joins and reads x"""
    def blocks():
        return [[ld("x", "sc")], [st("x", 0, "sc")], [swap("x", 0, "sc")],
                CS("m", ld("x", "sc")), CS("m", st("x", 0, "sc")),
                [L("trylock", "m"), br(0, 1, 2), st("x", 0, "sc"), L("unlock", "m")],
                [L("send", "ch", v=0)], [L("read", "l"), ld("x", "sc"), L("unlockr", "l")], [L("write", "l"), st("x", 0, "sc"), L("unlockw", "l")]]
    B = blocks()
    seen, out = set(), []
    for a1, a2, b1, b2 in itertools.product(range(len(B)), repeat=4):
        ta = [dict(i) for i in blocks()[a1] + blocks()[a2]]
        tb = [dict(i) for i in blocks()[b1] + blocks()[b2]]
        k = _canon_threads([ta, tb])
        if k in seen:
            continue
        seen.add(k)
        threads = _assign_values([ta, tb])
        nsend = sum(1 for th in threads for i in th if i["op"] == "send")
        main = [spawn(2), spawn(3)] + [L("recv", "ch")] * nsend + [join(2), join(3)] + ([L("droprx", "ch")] if nsend else []) + [ld("x", "sc")]
        p = {"threads": [main] + threads, "name": "exs", "tags": ["sync", "exhaustive"]}
        out.append(fix_br(p))
    return out
