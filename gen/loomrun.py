"""Running DSL programs under the real loom through the harness driver (child processes)."""
import json, os, subprocess, time, signal
from concurrent.futures import ThreadPoolExecutor

HARNESS = os.path.join(os.path.dirname(os.path.dirname(os.path.abspath(__file__))), "harness")
DRIVER = os.path.join(HARNESS, "target/release/driver")


class ToolError(Exception):
    pass


def build_harness():
    """(Re)build the harness against /repo's current working tree, hooks on."""
    lock_src = "/repo/Cargo.lock"
    lock_dst = os.path.join(HARNESS, "Cargo.lock")
    if not os.path.exists(lock_dst) and os.path.exists(lock_src):
        import shutil
        shutil.copy(lock_src, lock_dst)
    t0 = time.time()
    env = dict(os.environ, CARGO_NET_OFFLINE="true")
    p = subprocess.run(["cargo", "build", "--release", "--offline"], cwd=HARNESS, capture_output=True, text=True, env=env)
    if p.returncode != 0:
        raise ToolError("harness build failed:\n" + p.stdout[-3000:] + p.stderr[-3000:])
    return time.time() - t0


def _run_shard(items_file, out_file, stride, offset, n_items, per_prog_timeout, binary=DRIVER, extra_env=None, extra_args=()):
    """Run one shard; restart after aborts/hangs. Returns dict i -> result."""
    results = {}
    start = 0
    env = dict(os.environ)
    if extra_env:
        env.update(extra_env)
    while True:
        if os.path.exists(out_file):
            os.remove(out_file)
        cmd = [binary, items_file, out_file, "--stride", str(stride), "--offset", str(offset), "--start", str(start)] + list(extra_args)
        p = subprocess.Popen(cmd, stdout=subprocess.DEVNULL, stderr=subprocess.PIPE, env=env)
        # watchdog: the child must produce a line at least every per_prog_timeout seconds
        last_size, last_change = -1, time.time()
        hung = False
        while p.poll() is None:
            time.sleep(0.05)
            try:
                sz = os.path.getsize(out_file)
            except OSError:
                sz = 0
            if sz != last_size:
                last_size, last_change = sz, time.time()
            elif time.time() - last_change > per_prog_timeout:
                hung = True
                p.kill()
                p.wait()
                break
        err = p.stderr.read().decode(errors="replace")[-2000:]
        inflight = None
        if os.path.exists(out_file):
            for line in open(out_file):
                line = line.strip()
                if not line:
                    continue
                try:
                    d = json.loads(line)
                except json.JSONDecodeError:
                    continue
                if "beat" in d:
                    continue
                if d.get("start"):
                    inflight = d["i"]
                else:
                    results[d["i"]] = d
                    inflight = None
        if hung and inflight is not None:
            results[inflight] = {"i": inflight, "end": "hang", "msg": f"no progress for {per_prog_timeout}s", "iters": 0,
                                 "outcomes": {}, "traces": [], "fail_trace": [], "paths": [], "seq": [], "seq_keys": [],
                                 "distinct_traces": 0, "phases": [], "ms": int(per_prog_timeout * 1000)}
            start = inflight + 1
            continue
        rc = p.returncode
        if rc == 0 and not hung:
            break
        if inflight is None:
            raise ToolError(f"driver died outside a program (rc={rc}): {err}")
        kind = "abort:" + (signal.Signals(-rc).name if rc < 0 else f"exit{rc}")
        last = [l for l in err.strip().splitlines() if l.strip()]
        results[inflight] = {"i": inflight, "end": kind, "msg": (last[-1] if last else "")[:200], "iters": 0,
                             "outcomes": {}, "traces": [], "fail_trace": [], "paths": [], "seq": [], "seq_keys": [],
                             "distinct_traces": 0, "phases": [], "ms": 0}
        start = inflight + 1
    if os.path.exists(out_file):
        os.remove(out_file)
    return results


def run_items(workdir, items, jobs=12, per_prog_timeout=120, tag="items", binary=DRIVER, extra_env=None, extra_args=()):
    """items: list of {"prog":..., "cfg":...}. Returns list of results in order."""
    os.makedirs(workdir, exist_ok=True)
    items_file = os.path.join(workdir, f"{tag}.json")
    with open(items_file, "w") as f:
        json.dump(items, f)
    jobs = max(1, min(jobs, len(items)))
    with ThreadPoolExecutor(jobs) as ex:
        futs = [ex.submit(_run_shard, items_file, os.path.join(workdir, f"{tag}.out.{k}"), jobs, k, len(items),
                          per_prog_timeout, binary, extra_env, extra_args) for k in range(jobs)]
        merged = {}
        for f in futs:
            merged.update(f.result())
    missing = [i for i in range(len(items)) if i not in merged]
    if missing:
        raise ToolError(f"driver produced no result for items {missing[:10]}")
    return [merged[i] for i in range(len(items))]


def loom_keys(res):
    """set of canonical {regs, drops} keys observed in completed iterations"""
    from tlc import canon_key
    out = set()
    for k in res["outcomes"]:
        d = json.loads(k)
        extra = {"tls_alive_in_drop": d["tls_alive_in_drop"]} if d.get("tls_alive_in_drop") else None
        out.add(canon_key(d["regs"], d.get("drops"), d.get("stat"), extra))
    return out
