#!/bin/sh
cd "$(dirname "$0")/.."
for c in $1; do
  /usr/bin/time -f "$c wall=%es" timeout 5400 ./check $c --tier thorough --no-build 2>&1 | grep -E "VIOLATION|TOOL-ERROR|thorough:|Traceback|wall=" | head -8
done
