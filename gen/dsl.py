"""Program DSL shared by the TLA+ specifications and the Rust interpreter.

A program is a JSON value; `normalize` fills in the object tables so that the
TLA+ constant and the Rust interpreter read exactly the same thing.
Thread ids are 1-based, 1 = main.
"""
import json, hashlib

FIELDS = ("op", "o", "o2", "v", "w", "ord", "ord2", "k", "r")
DEFAULT = {"op": "nop", "o": "", "o2": "", "v": 0, "w": 0, "ord": "", "ord2": "", "k": "", "r": 0}

ATOM_OPS = {"ld", "st", "rmw", "cas", "await", "wmut", "uld", "aguard"}
CELL_OPS = {"rd", "wr", "wrrd", "rdwr", "rdhold", "rdrel", "wrhold", "wrrel"}
MTX_OPS = {"lock", "trylock", "unlock", "mset", "mget", "mgetmut", "minto"}
RW_OPS = {"read", "write", "tryread", "trywrite", "unlockr", "unlockw", "rwset", "rwget", "rwgetmut", "rwinto"}
CV_OPS = {"cvwait", "notify1", "notifyall"}
NTF_OPS = {"nwait", "notify"}
CHAN_OPS = {"send", "recv", "tryrecv", "droprx", "rxhold", "rxrel"}
ARC_OPS = {"aclone", "adrop", "acount", "agetmut", "aunwrap", "aintoraw", "afromraw", "aptreq", "ahold", "adropheld"}
TRK_OPS = {"tnew", "tdrop", "tforget"}
TL_OPS = {"tlwith", "tlnest", "tlexit"}
LZ_OPS = {"lzget", "lzread"}
# operations that return a value (append to regs)
RET_OPS = {"ld", "rmw", "cas", "await", "uld", "trylock", "tryread", "trywrite", "recv",
           "tryrecv", "acount", "agetmut", "aunwrap", "aptreq", "tlwith", "tlnest", "lzget", "blockon",
           "mget", "mgetmut", "minto", "rwget", "rwgetmut", "rwinto"}
BLOCKING_OPS = {"join", "park", "lock", "read", "write", "cvwait", "nwait", "recv", "await"}


def I(op, o="", **kw):
    d = dict(DEFAULT)
    d["op"] = op
    d["o"] = o
    d.update(kw)
    return d


# short constructors
def ld(x, ord="rlx"): return I("ld", x, ord=ord)
def st(x, v, ord="rlx"): return I("st", x, v=v, ord=ord)
def rmw(x, k, v, ord="rlx"): return I("rmw", x, k=k, v=v, ord=ord)
def swap(x, v, ord="rlx"): return rmw(x, "swap", v, ord)
def fadd(x, v, ord="rlx"): return rmw(x, "add", v, ord)
def cas(x, exp, new, ord="rlx", ord2="rlx"): return I("cas", x, v=exp, w=new, ord=ord, ord2=ord2)
def await_(x, ord="acq", v=0): return I("await", x, ord=ord, v=v)
def fence(ord): return I("fence", ord=ord)
def rd(c): return I("rd", c)
def wr(c): return I("wr", c)
def spawn(t): return I("spawn", v=t)
def join(t): return I("join", v=t)
def unpark(t): return I("unpark", v=t)
def br(r, v, n): return I("br", r=r, v=v, w=n)


def normalize(p):
    """Fill in object tables from the instructions. Returns a new dict."""
    q = {"threads": [[{**DEFAULT, **i} for i in th] for th in p["threads"]]}
    sets = {k: set(p.get(k, [])) for k in ("atoms", "cells", "mtxs", "rws", "cvs", "ntfs", "chans", "trks", "tls", "lzs", "aws", "slots")}
    if isinstance(p.get("arcs"), list):     # already normalized: rebuild the declaration
        arcs = {a: {"h0": [h for h in p.get("h0", []) if p["hmap"][h] == a], "cell": p.get("acell", {}).get(a, "")}
                for a in p["arcs"]}
    else:
        arcs = dict(p.get("arcs", {}))  # arc name -> {"h0": [handles], "cell": "c" or ""}
    hmap = {}
    for a, d in arcs.items():
        for h in d.get("h0", []):
            hmap[h] = a
        if d.get("cell"):
            sets["cells"].add(d["cell"])
    # handle names introduced by aclone (iterate to a fixpoint: clones of clones)
    changed = True
    while changed:
        changed = False
        for th in q["threads"]:
            for i in th:
                if i["op"] == "aclone" and i["o"] in hmap and i["o2"] not in hmap:
                    hmap[i["o2"]] = hmap[i["o"]]
                    changed = True
    for th in q["threads"]:
        for i in th:
            op = i["op"]
            if op in ATOM_OPS: sets["atoms"].add(i["o"])
            elif op in CELL_OPS: sets["cells"].add(i["o"])
            elif op in MTX_OPS: sets["mtxs"].add(i["o"])
            elif op in RW_OPS: sets["rws"].add(i["o"])
            elif op in CV_OPS:
                sets["cvs"].add(i["o"])
                if op == "cvwait": sets["mtxs"].add(i["o2"])
            elif op in NTF_OPS: sets["ntfs"].add(i["o"])
            elif op in CHAN_OPS: sets["chans"].add(i["o"])
            elif op in TRK_OPS: sets["trks"].add(i["o"])
            elif op in TL_OPS:
                sets["tls"].add(i["o"])
                if op == "tlnest": sets["tls"].add(i["o2"])
            elif op in LZ_OPS: sets["lzs"].add(i["o"])
            elif op == "blockon" and i["k"] == "raw":
                sets["slots"].add(i["o"])
                if i["ord2"]: sets["slots"].add(i["ord2"])
                sets["atoms"].add(i["o2"])
                sets["atoms"].add(i["o2"] + "r")
                if i["w"]: sets["atoms"].add(i["o2"] + "2")
            elif op in ("wakeslot", "wakeref"): sets["slots"].add(i["o"])
            elif op == "blockon":
                sets["aws"].add(i["o"])
                sets["atoms"].add(i["o2"])
            elif op == "wake": sets["aws"].add(i["o"])
            elif op in ARC_OPS:
                assert i["o"] in hmap, ("unknown handle", i)
            elif op == "spawn":
                if i["o2"]: sets["chans"].add(i["o2"])
                if i["k"]: sets["trks"].add(i["k"])
    for k, s in sets.items():
        q[k] = sorted(s)
    q["arcs"] = sorted(arcs)
    q["hmap"] = hmap
    q["h0"] = sorted(h for d in arcs.values() for h in d.get("h0", []))
    q["acell"] = {a: arcs[a].get("cell", "") for a in arcs}
    for k in ("name", "cfg", "tags"):
        if k in p:
            q[k] = p[k]
    return q


def prog_hash(q):
    core = {k: q[k] for k in ("threads", "arcs", "hmap", "h0", "acell")}
    return hashlib.sha1(json.dumps(core, sort_keys=True).encode()).hexdigest()[:12]


# ---------------------------------------------------------------- TLA+ rendering
def tla(v):
    if isinstance(v, bool):
        return "TRUE" if v else "FALSE"
    if isinstance(v, dict):
        return "[" + ", ".join(f"{k} |-> {tla(x)}" for k, x in v.items()) + "]"
    if isinstance(v, (list, tuple)):
        return "<<" + ", ".join(tla(x) for x in v) + ">>"
    if isinstance(v, (set, frozenset)):
        return "{" + ", ".join(tla(x) for x in sorted(v)) + "}"
    if isinstance(v, str):
        return '"' + v + '"'
    return str(v)


def tla_fun(d):
    """string-keyed function"""
    if not d:
        return "<<>>"
    return "(" + " @@ ".join(f'{tla(k)} :> {tla(v)}' for k, v in sorted(d.items())) + ")"


def tla_prog(q):
    parts = {
        "threads": tla([[{f: i[f] for f in FIELDS} for i in th] for th in q["threads"]]),
    }
    for k in ("atoms", "cells", "mtxs", "rws", "cvs", "ntfs", "chans", "arcs", "trks", "h0", "tls", "lzs", "aws", "slots"):
        parts[k] = tla(set(q.get(k, [])))
    parts["hmap"] = tla_fun(q["hmap"])
    parts["acell"] = tla_fun(q["acell"])
    return "[" + ", ".join(f"{k} |-> {v}" for k, v in parts.items()) + "]"


def render_progs_module(name, progs):
    body = ",\n  ".join(tla_prog(q) for q in progs)
    return f"---- MODULE {name} ----\nEXTENDS TLC\nMCProgs == <<\n  {body}\n>>\n====\n"


def pretty(q):
    """compact human-readable rendering of a program"""
    def one(i):
        op = i["op"]
        a = [i["o"]] if i["o"] else []
        if i["o2"]: a.append(i["o2"])
        if op in ("st", "rmw", "send", "spawn", "join", "unpark", "wmut"): a.append(str(i["v"]))
        if op == "cas": a += [str(i["v"]), str(i["w"])]
        if op == "br": a += [f"r{i['r']}=={i['v']}", f"skip{i['w']}"]
        if i["k"]: a.insert(0, i["k"])
        if i["ord"]: a.append(i["ord"])
        if i["ord2"]: a.append(i["ord2"])
        return f"{op}({','.join(a)})"
    return " || ".join("; ".join(one(i) for i in th) for th in q["threads"])
