"""Shared machinery of the checks: context, sandwich comparison, evidence, replay files, known findings."""
import json, os, sys, time, hashlib, random

import dsl, tlc, loomrun

VERIF = os.path.dirname(os.path.dirname(os.path.abspath(__file__)))
KNOWN = os.path.join(VERIF, "known_findings.json")


class Ctx:
    def __init__(self, pid, tier, seed):
        self.pid = pid
        self.tier = tier
        self.seed = seed
        self.t0 = time.time()
        self.work = os.path.join(VERIF, "work", pid)
        os.makedirs(self.work, exist_ok=True)
        os.makedirs(os.path.join(VERIF, "replays"), exist_ok=True)
        os.makedirs(os.path.join(VERIF, "evidence"), exist_ok=True)
        self.violations = []      # dicts
        self.known_hits = []
        self.cov = {"states": 0, "transitions": 0, "traces_validated_against_impl": 0, "samples": [],
                    "programs": 0, "distinct_nontrivial": 0, "evaluations": 0, "ambiguous_skipped": 0,
                    "loom_iterations": 0, "capped_programs": 0, "tlc_runs": [], "actions": {}}
        self.assumptions = []
        self.notes = []
        self.jobs = int(os.environ.get("VERIF_JOBS", "12"))
        self.tlc_workers = int(os.environ.get("VERIF_TLC_WORKERS", "8"))
        try:
            self.known = json.load(open(KNOWN))
        except FileNotFoundError:
            self.known = {"findings": [], "fixed": []}

    # ------------------------------------------------------------------ TLC bookkeeping
    def add_tlc(self, info, label):
        self.cov["states"] += info["stats"]["distinct"]
        self.cov["transitions"] += info["stats"]["generated"]
        self.cov["tlc_runs"].append({"label": label, "distinct": info["stats"]["distinct"],
                                     "generated": info["stats"]["generated"], "wall_s": round(info["wall"], 1)})
        for k, v in info.get("coverage", {}).items():
            self.cov["actions"][k] = self.cov["actions"].get(k, 0) + v

    # ------------------------------------------------------------------ violations
    def violation(self, kind, prog, witness, detail):
        """kind: missing-outcome | illegal-outcome | false-report | missed-report | abort | trace-rejected | ..."""
        h = dsl.prog_hash(prog) if prog is not None else ""
        v = {"property": self.pid, "kind": kind, "prog_hash": h, "witness": witness, "detail": detail,
             "prog": prog, "pretty": dsl.pretty(prog) if prog is not None else ""}
        for k in self.known.get("findings", []):
            if k["property"] == self.pid and k["kind"] == kind and k.get("prog_hash", "") == h and \
                    k.get("witness") == witness:
                self.known_hits.append((k, v))
                return
        self.violations.append(v)

    def finish(self, extra_cov=None):
        cov = self.cov
        if extra_cov:
            cov.update(extra_cov)
        # group violations per program into replay files
        lines = []
        byprog = {}
        for v in self.violations:
            byprog.setdefault((v["prog_hash"], v["kind"]), []).append(v)
        for (h, kind), vs in sorted(byprog.items()):
            name = f"{self.pid}-{kind}-{h or hashlib.sha1(json.dumps(vs[0]['witness'], sort_keys=True).encode()).hexdigest()[:10]}.json"
            path = os.path.join(VERIF, "replays", name)
            with open(path, "w") as f:
                json.dump({"property": self.pid, "kind": kind, "tier": self.tier, "seed": self.seed,
                           "prog": vs[0]["prog"], "pretty": vs[0]["pretty"],
                           "violations": [{"witness": v["witness"], "detail": v["detail"]} for v in vs],
                           "rerun": f"./check {self.pid} --replay {path}"}, f, indent=1)
            lines.append(f"VIOLATION property={self.pid} replay={path}")
        seen = set()
        for k, v in self.known_hits:
            key = (k["kind"], k.get("prog_hash"), json.dumps(k.get("witness"), sort_keys=True))
            if key in seen:
                continue
            seen.add(key)
            print(f"KNOWN-FINDING: property={self.pid} {k.get('id','')} {k['kind']} prog={k.get('prog_hash','')} "
                  f"[{k.get('pretty','')}] witness={json.dumps(k.get('witness'))} :: {k.get('what','')}")
        ev = {"property_id": self.pid, "tier": self.tier, "seed": self.seed, "level": "model_checking",
              "coverage": cov, "assumptions": self.assumptions, "wall_s": round(time.time() - self.t0, 1),
              "violations": len(self.violations), "known_findings_hit": len(seen), "notes": self.notes}
        if not cov["samples"]:
            cov["samples"] = ["(no sample recorded)"]
        cov["states"] = max(cov["states"], 1) if cov["tlc_runs"] else cov["states"]
        with open(os.path.join(VERIF, "evidence", self.pid + ".json"), "w") as f:
            json.dump(ev, f, indent=1)
        for l in lines:
            print(l)
        print(f"{self.pid} {self.tier}: programs={cov['programs']} nontrivial={cov['distinct_nontrivial']} "
              f"states={cov['states']} traces={cov['traces_validated_against_impl']} violations={len(self.violations)} "
              f"known={len(seen)} wall={ev['wall_s']}s")
        return 1 if self.violations else 0


# ---------------------------------------------------------------------- spec outcome sets
class SpecSets:
    """outcomes of one program under one spec configuration"""
    def __init__(self, outs):
        self.ok = {k for (e, k) in outs if e == "ok"}
        self.leak = {k for (e, k) in outs if e.startswith("leak")}
        self.fails = {e for (e, k) in outs if e != "ok"}
        self.all_keys = self.ok | self.leak
        self.n = len(outs)


def spec_sets(ctx, progs, cfgname, label, coverage=False):
    if not progs:
        return []
    outs, info = tlc.sem_outcomes(os.path.join(ctx.work, "tlc_" + label), progs, cfgname,
                                  workers=ctx.tlc_workers, timeout=3000, coverage=coverage)
    ctx.add_tlc(info, label)
    res = [SpecSets(o) for o in outs]
    for i, s in enumerate(res):
        if s.n == 0:
            raise tlc.ToolError(f"spec produced no outcome for program {i} under {cfgname}: {dsl.pretty(progs[i])}")
    return res


def lower_upper(ctx, progs, sc_pred, coverage=False):
    """Lower/Upper spec sets per program.  Lower uses the interleaving reading for programs with
    SeqCst accesses (sc_pred), the strong view machine otherwise."""
    idx_sc = [i for i, p in enumerate(progs) if sc_pred(p)]
    idx_v = [i for i, p in enumerate(progs) if not sc_pred(p)]
    lower = [None] * len(progs)
    for idxs, cfg, lab in ((idx_v, "MCSem_lower.cfg", "lower"), (idx_sc, "MCSem_sc.cfg", "lower_sc")):
        rs = spec_sets(ctx, [progs[i] for i in idxs], cfg, lab, coverage)
        for i, r in zip(idxs, rs):
            lower[i] = r
    upper = spec_sets(ctx, progs, "MCSem_upper.cfg", "upper", coverage)
    return lower, upper


def run_loom(ctx, progs, cfg_of=None, tag="loom", per_prog_timeout=300):
    items = []
    for p in progs:
        cfg = {"trace_cap": 0}
        if cfg_of:
            cfg.update(cfg_of(p))
        items.append({"prog": p, "cfg": cfg})
    res = loomrun.run_items(os.path.join(ctx.work, tag), items, jobs=ctx.jobs, per_prog_timeout=per_prog_timeout, tag=tag)
    ctx.cov["loom_iterations"] += sum(r.get("iters", 0) for r in res)
    return res


FAIL_ENDS = ("deadlock", "race", "leak:arc", "leak:alloc", "leak:msg", "panic", "usage")


def compare_sandwich(ctx, p, lo, up, res, want=("complete", "sound", "fails")):
    """The generic comparison  Lower(P) <= loom(P) <= Upper(P)  plus failure-kind agreement.
    Returns True if the program decided something non-trivially."""
    end = res["end"]
    keys = loomrun.loom_keys(res)
    if end.startswith("abort") or end == "hang":
        ctx.violation("abort", p, end, {"msg": res["msg"]})
        return True
    if end in ("other", "branches"):
        ctx.violation("unexpected-panic", p, res["msg"][:80], {"end": end, "msg": res["msg"]})
        return True
    capped = end == "capped"
    if capped:
        ctx.cov["capped_programs"] += 1
    if "sound" in want:
        for k in sorted(keys - up.all_keys):
            ctx.violation("illegal-outcome", p, k, {"loom_end": end, "upper_size": len(up.all_keys)})
    if "fails" in want and end in FAIL_ENDS:
        if end not in up.fails and end not in lo.fails:
            ctx.violation("false-report", p, end, {"msg": res["msg"], "spec_fail_kinds_upper": sorted(up.fails),
                                                   "spec_fail_kinds_lower": sorted(lo.fails)})
    if end == "ok":
        if "fails" in want:
            must = lo.fails & up.fails
            if must:
                ctx.violation("missed-report", p, sorted(must)[0], {"spec_fail_kinds": sorted(must), "loom_iters": res["iters"]})
            elif lo.fails | up.fails:
                ctx.cov["ambiguous_skipped"] += 1
        if "complete" in want and not lo.fails:
            for k in sorted(lo.ok - keys):
                ctx.violation("missing-outcome", p, k, {"loom_outcomes": len(keys), "lower_size": len(lo.ok),
                                                        "loom_iters": res["iters"]})
    return len(up.all_keys) >= 2 or bool(up.fails)


def sample(ctx, p, lo, up, res):
    if len(ctx.cov["samples"]) < 4:
        ctx.cov["samples"].append({"program": dsl.pretty(p), "lower": sorted(lo.ok)[:6], "lower_fails": sorted(lo.fails),
                                   "upper_size": len(up.all_keys), "loom": sorted(loomrun.loom_keys(res))[:6],
                                   "loom_end": res["end"], "loom_iters": res["iters"]})


def validate_traces(ctx, progs, res, cfgname="MCTrace_upper.cfg", label="trace", pb_of=lambda i: -1):
    """Every recorded iteration must be a behaviour of LoomSemTrace.  Programs that carry a listed
    outcome-level finding are not trace-validated (their rejection is the same finding)."""
    import tracecheck
    listed = {k.get("prog_hash") for k in ctx.known.get("findings", [])}
    hashes = [dsl.prog_hash(p) for p in progs]
    # (programs with `tlexit` are compared by outcome only: the destructor's operation happens after the instruction's log event)
    late = {i for i, p in enumerate(progs) if any(ins["op"] == "tlexit" for th in p["threads"] for ins in th)}
    skipped = sum(1 for h in hashes if h in listed)
    rej = tracecheck.validate(ctx, progs, res, cfgname=cfgname, label=label, skip=lambda i: hashes[i] in listed or i in late, pb_of=pb_of)
    ctx.cov["trace_skipped_known_finding_programs"] = ctx.cov.get("trace_skipped_known_finding_programs", 0) + skipped
    for i, meta, info in rej:
        ev = info["event"]
        ctx.violation("trace-rejected", progs[i], {"end": meta["end"], "event": ev,
                                                   "prefix": [[e.get("t"), e.get("pc"), e.get("res")] for e in info["matched_prefix"] if e["k"] == "op"]},
                      {"trace": meta["trace"], "note": "first event LoomSemTrace could not match (spec state = after the prefix)"})
    if len(ctx.cov["samples"]) < 6:
        for p, r in zip(progs, res):
            if r.get("traces"):
                ctx.cov["samples"].append({"program": dsl.pretty(p), "validated_trace_[t,pc,res]": r["traces"][-1]})
                break
    return rej


def prefix_determinism(ctx, p, res, label=""):
    """Isolation / determinism in its sharpest observable form: loom's execution is a function of the decisions taken,
    so two iterations that share a decision prefix must have gone through exactly the same scheduler-visible thread
    states along it (schedule hook: thread that called schedule, state of every thread).  Anything carried over from
    an earlier iteration that influences scheduling shows up here, whichever iteration it first strikes in."""
    import pathcheck
    ends = [pathcheck.decisions(pathcheck.canon_path(path)) for (ph, it, path) in res.get("hook_events", []) if ph == "end"]
    seen = {}
    n = 0
    for it, (dec, evs) in enumerate(zip(ends, res.get("sched_events", [])), start=1):
        for (pos, prev, nxt, states) in evs:
            if pos > len(dec):
                continue
            key = tuple(dec[:pos])
            val = (prev, tuple(states))
            old = seen.get(key)
            n += 1
            if old is None:
                seen[key] = (val, it)
            elif old[0] != val:
                ctx.violation("same-prefix-different-state", p,
                              {"decisions_before_branch": pos, "iteration_a": old[1], "iteration_b": it,
                               "caller_and_states_a": [old[0][0], list(old[0][1])], "caller_and_states_b": [val[0], list(val[1])]},
                              {"label": label, "note": "states: 0 runnable, 1 runnable+park token, 2 blocked, 3 yield, 4 terminated"})
                return n
    ctx.cov["schedule_events_compared"] = ctx.cov.get("schedule_events_compared", 0) + n
    return n
