"""One function per property.  Each builds its family, runs TLC and loom, compares."""
import json, os
import dsl, tlc, loomrun, core, families


def iter_cap(tier):
    return 400_000 if tier == "quick" else 4_000_000


def memory_model(ctx, want, progs=None, avoid=()):
    """C02 (complete) / C03 (sound) share the litmus family and the runs."""
    progs = progs if progs is not None else families.litmus(ctx.tier, ctx.seed, avoid=avoid)
    lower, upper = core.lower_upper(ctx, progs, families.has_sc_access, coverage=True)
    tcap = 0 if "trace" not in want else (30 if ctx.tier == "quick" else 400)
    res = core.run_loom(ctx, progs, cfg_of=lambda p: {"iter_cap": iter_cap(ctx.tier), "trace_cap": tcap})
    nontriv = 0
    for p, lo, up, r in zip(progs, lower, upper, res):
        if core.compare_sandwich(ctx, p, lo, up, r, want=want):
            nontriv += 1
        core.sample(ctx, p, lo, up, r)
    if "trace" in want:
        core.validate_traces(ctx, progs, res)
    ctx.cov["programs"] += len(progs)
    ctx.cov["evaluations"] += len(progs)
    ctx.cov["distinct_nontrivial"] += nontriv
    return progs, lower, upper, res


def C02(ctx):
    ctx.assumptions += ["Lower(P) = LoomSem view machine with RC11 same-thread release sequences; programs with "
                        "SeqCst accesses use the interleaving outcomes (always RC11-consistent) as lower bound",
                        "<= 5 stores per location; no load buffering (po u rf acyclic is built into the machine)"]
    ctx.notes.append("random tail quarantined for the open finding F16 (families.q_f16)")
    memory_model(ctx, ("complete",), avoid=(families.q_f16,))


def C03(ctx):
    ctx.assumptions += ["Upper(P) = LoomSem view machine with the weakest documented synchronisation: SeqCst "
                        "accesses as acquire/release, no same-thread release sequences (C++20)",
                        "every store writes a distinct value per location, so an outcome fixes reads-from"]
    ctx.notes.append("random tail quarantined for open findings F3/F4 (families.q_mo); the enumerated core keeps "
                     "the multi-writer shapes and re-confirms the listed witnesses")
    memory_model(ctx, ("sound", "trace"), avoid=(families.q_mo,))


def sync_family(ctx, progs, want=("complete", "sound", "fails", "trace"), tcap=None, waive=True):
    """generic: Lower(P) <= loom(P) <= Upper(P), failure kinds, and trace validation of every recorded iteration"""
    lower, upper = core.lower_upper(ctx, progs, families.has_sc_access, coverage=True)
    tcap = tcap if tcap is not None else (30 if ctx.tier == "quick" else 300)
    res = core.run_loom(ctx, progs, cfg_of=lambda p: {"iter_cap": iter_cap(ctx.tier), "trace_cap": tcap if "trace" in want else 0})
    nontriv = 0
    for p, lo, up, r in zip(progs, lower, upper, res):
        # waivers (open findings) apply to generated programs only; directed shapes get the full comparison
        wv = families.waived(p) if waive and "sync" in p.get("tags", []) else {}
        for k, f in wv.items():
            if k in want:
                ctx.cov["waived"] = ctx.cov.get("waived", {})
                ctx.cov["waived"][f] = ctx.cov["waived"].get(f, 0) + 1
        if core.compare_sandwich(ctx, p, lo, up, r, want=tuple(w for w in want if w not in wv)):
            nontriv += 1
        core.sample(ctx, p, lo, up, r)
    if "trace" in want:
        core.validate_traces(ctx, progs, res)
    ctx.cov["programs"] += len(progs)
    ctx.cov["evaluations"] += len(progs)
    ctx.cov["distinct_nontrivial"] += nontriv
    return lower, upper, res


def C01(ctx):
    ctx.assumptions += ["Spec_interleaved(P) (plain interleaving, no reduction) is the lower bound for programs with "
                        "SeqCst atomics; Upper(P) treats SeqCst accesses as acquire/release"]
    progs = families.syncmix(ctx.tier, ctx.seed)
    sync_family(ctx, progs)


def C04(ctx):
    ctx.assumptions += ["'must report' iff a race is reachable under the strongest documented synchronisation AND the weakest; "
                        "'must not report' iff unreachable under both; programs on which they disagree decide nothing",
                        "happens-before = vector clocks carried by LoomSem views (spawn/join, locks, channels, park token, "
                        "release/acquire incl. fences and release sequences)"]
    progs = families.races(ctx.tier, ctx.seed)
    sync_family(ctx, progs, want=("fails", "sound", "trace"))


def C05(ctx):
    ctx.assumptions += ["deadlock = some started thread not finished and no thread has a guaranteed step "
                        "(a spurious Notify return is never guaranteed)",
                        "park token independent of every other kind of blocking (std semantics)"]
    sync_family(ctx, families.blocking(ctx.tier, ctx.seed), want=("fails", "sound", "complete", "trace"))


def C07(ctx):
    ctx.assumptions += ["trace validation evaluates the spec lock machine's enabling condition at every recorded "
                        "lock/try_lock/read/write/try_* event; protected cells make a missing hand-over edge a race"]
    sync_family(ctx, families.locks(ctx.tier, ctx.seed))


def C08(ctx):
    ctx.assumptions += ["condvar: no spurious wake-ups; notify_one wakes any one waiter (Upper) / the first (Lower)",
                        "Notify: at most one spurious return per object (Upper) / none (Lower)"]
    sync_family(ctx, families.waits(ctx.tier, ctx.seed))


def C09(ctx):
    ctx.assumptions += ["channel = FIFO sequence; send after the receiver was dropped queues nothing (std)"]
    sync_family(ctx, families.chans(ctx.tier, ctx.seed))


def C10(ctx):
    ctx.assumptions += ["leak at termination = some arc count > 0, some Track not dropped (mem::forget keeps it live), "
                        "or a non-empty channel; whatever the program does not release is leaked by the interpreter, never released for it"]
    sync_family(ctx, families.leaks(ctx.tier, ctx.seed), want=("fails", "sound", "trace"))


def C11(ctx):
    ctx.assumptions += ["reference count machine: count/get_mut/try_unwrap read the count at that instant; payload dropped by "
                        "the decrement that reaches zero; the payload's Drop writes a cell every owner reads before dropping"]
    sync_family(ctx, families.arcs_family(ctx.tier, ctx.seed))


def path_programs(ctx, n_per=None):
    """programs whose paths mix the three branch kinds (schedule, load, spurious), yields, blocked threads"""
    import random
    rng = random.Random(ctx.seed * 12289 + 31)
    pool = []
    pool += [p for p in families.litmus(ctx.tier, ctx.seed, avoid=(families.q_mo,)) if len(p["threads"]) <= 4]
    pool += families.syncmix(ctx.tier, ctx.seed)
    pool += families.waits(ctx.tier, ctx.seed)
    pool += families.chans(ctx.tier, ctx.seed)
    n_per = n_per or (60 if ctx.tier == "quick" else 400)
    rng.shuffle(pool)
    return pool[:n_per]


def C14(ctx):
    import pathcheck
    ctx.assumptions += ["the iteration hook hands over serde_json(rt::Path) after each iteration and after each step; "
                        "ExploreTrace.tla re-computes Path::step from the recorded state and compares exactly",
                        "termination is observed (the run returned) and implied by strict DFS advance on a finite tree"]
    progs = path_programs(ctx)
    cap = 3000 if ctx.tier == "quick" else 40000
    res = core.run_loom(ctx, progs, cfg_of=lambda p: {"iter_cap": cap, "want_paths": True}, tag="paths")
    runs = []
    nontriv = 0
    for i, (p, r) in enumerate(zip(progs, res)):
        if r["end"].startswith("abort") or r["end"] == "hang":
            ctx.violation("abort", p, r["end"], {"msg": r["msg"]})
            continue
        runs.append(({"prog": i}, r["hook_events"]))
        # independent of the spec: decision sequences pairwise distinct, count = iterations
        decs = [pathcheck.decisions(pathcheck.canon_path(path)) for (ph, it, path) in r["hook_events"] if ph == "end"]
        if len(set(decs)) != len(decs):
            ctx.violation("repeated-execution", p, {"iterations": len(decs), "distinct": len(set(decs))}, {})
        if r["end"] == "ok" and len(decs) != r["iters"]:
            ctx.violation("iteration-count", p, {"iterations": r["iters"], "paths": len(decs)}, {})
        if len(decs) >= 2:
            nontriv += 1
        kinds = {e["k"] for (ph, it, path) in r["hook_events"][:3] if ph == "end" for e in pathcheck.canon_path(path)["br"]}
        ctx.cov.setdefault("branch_kinds_seen", {})
        for k in kinds:
            ctx.cov["branch_kinds_seen"][k] = ctx.cov["branch_kinds_seen"].get(k, 0) + 1
    rej = pathcheck.validate(ctx, runs)
    for meta, info in rej:
        ctx.violation("path-rejected", progs[meta["prog"]], info, {"note": "first hook event ExploreTrace could not match"})
    ctx.cov["programs"] += len(progs)
    ctx.cov["evaluations"] += sum(len(r["hook_events"]) for r in res)
    ctx.cov["distinct_nontrivial"] += nontriv
    if res and res[0]["hook_events"]:
        ctx.cov["samples"].append({"program": dsl.pretty(progs[0]), "first_path": pathcheck.canon_path(res[0]["hook_events"][1][2]) if len(res[0]["hook_events"]) > 1 else None})


CHECKS = {"C14": C14, "C10": C10, "C11": C11, "C01": C01, "C04": C04, "C05": C05, "C07": C07, "C08": C08, "C09": C09, "C02": C02, "C03": C03}
