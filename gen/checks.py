"""One function per property.  Each builds its family, runs TLC and loom, compares."""
import json, os
import dsl, tlc, loomrun, core, families


def iter_cap(tier):
    return 400_000 if tier == "quick" else 2_000_000


def memory_model(ctx, want, progs=None, avoid=()):
    """C02 (complete) / C03 (sound) share the litmus family and the runs."""
    progs = progs if progs is not None else families.litmus(ctx.tier, ctx.seed, avoid=avoid)
    lower, upper = core.lower_upper(ctx, progs, families.has_sc_access, coverage=True)
    if "complete" in want:
        sc_lower_bound(ctx, progs, lower, upper)
    tcap = 0 if "trace" not in want else (30 if ctx.tier == "quick" else 400)
    res = core.run_loom(ctx, progs, cfg_of=lambda p: {"iter_cap": iter_cap(ctx.tier), "trace_cap": tcap})
    nontriv = 0
    for p, lo, up, r in zip(progs, lower, upper, res):
        if core.compare_sandwich(ctx, p, lo, up, r, want=want):
            nontriv += 1
        core.sample(ctx, p, lo, up, r)
    if "trace" in want:
        core.validate_traces(ctx, progs, res)
    oracle_selfcheck(ctx, progs, lower, upper, limit=(80 if ctx.tier == "quick" else 600))
    ctx.cov["programs"] += len(progs)
    ctx.cov["evaluations"] += len(progs)
    ctx.cov["distinct_nontrivial"] += nontriv
    return progs, lower, upper, res


def ax_eligible(p):
    """litmus programs of the fragment RC11Ax.tla covers: ld / st / swap / fence, no SeqCst accesses, main = spawn*; join*; ld*"""
    main = p["threads"][0]
    k = 0
    while k < len(main) and main[k]["op"] == "spawn": k += 1
    while k < len(main) and main[k]["op"] == "join": k += 1
    if any(i["op"] != "ld" for i in main[k:]) or len(main) > 12:
        return False
    for th in p["threads"][1:]:
        for i in th:
            if i["op"] not in ("ld", "st", "rmw", "fence") or (i["op"] == "rmw" and i["k"] != "swap"):
                return False
    n_writes = sum(1 for th in p["threads"][1:] for i in th if i["op"] in ("st", "rmw"))
    return n_writes <= 5


def ax_cost(p):
    import math
    w, c = {}, 1
    for th in p["threads"][1:]:
        for i in th:
            if i["op"] in ("st", "rmw"): w[i["o"]] = w.get(i["o"], 0) + 1
    for n in w.values(): c *= math.factorial(n)
    for th in p["threads"]:
        for i in th:
            if i["op"] == "ld": c *= w.get(i["o"], 0) + 1
    return c


def ax_outcomes(ctx, sub, relseq, label):
    """outcome sets (ok keys) of the axiomatic RC11 spec for the programs `sub`"""
    import shutil
    work = os.path.join(ctx.work, "ax_" + label)
    os.makedirs(work, exist_ok=True)
    with open(os.path.join(work, "MCProgsMod.tla"), "w") as f:
        f.write(dsl.render_progs_module("MCProgsMod", sub))
    shutil.copy(os.path.join(tlc.SPECS, "MCAx.tla"), os.path.join(work, "MCAx.tla"))
    r = tlc.run_tlc(work, "MCAx", os.path.join(tlc.SPECS, f"MCAx_{relseq}.cfg"), workers=ctx.tlc_workers, timeout=1500)
    if "Model checking completed. No error has been found." not in r["text"]:
        open(os.path.join(work, "tlc_error.log"), "w").write(r["text"])
        raise tlc.ToolError(f"RC11Ax failed (see {work}/tlc_error.log)")
    ctx.add_tlc(r, "RC11Ax_" + label)
    outs = [set() for _ in sub]
    for o in tlc.parse_out_lines(r["text"]):
        outs[o["p"] - 1].add(tlc.canon_outcome(o)[1])
    return outs


def sc_lower_bound(ctx, progs, lower, upper):
    """Programs with SeqCst accesses: the interleaving set is only a lower bound of the lower bound.  For the
    eligible ones the axiomatic RC11 spec (psc axiom) gives the exact set of allowed outcomes; use it."""
    idx = [i for i, p in enumerate(progs) if families.has_sc_access(p) and ax_eligible(p)]
    budget = 20000 if ctx.tier == "quick" else 400000
    chosen = []
    for i in idx:
        c = ax_cost(progs[i])
        if c <= budget:
            budget -= c
            chosen.append(i)
    if not chosen:
        return
    outs = ax_outcomes(ctx, [progs[i] for i in chosen], "TRUE", "sc")
    for k, i in enumerate(chosen):
        if not (lower[i].ok <= outs[k]):
            raise tlc.ToolError("oracle self-inconsistency: an interleaving outcome is not RC11-consistent for "
                                f"[{dsl.pretty(progs[i])}]: {sorted(lower[i].ok - outs[k])[:3]}")
        if not (outs[k] <= upper[i].ok):
            raise tlc.ToolError("oracle self-inconsistency: an RC11 outcome is not an outcome of the acq/rel view machine for "
                                f"[{dsl.pretty(progs[i])}]: {sorted(outs[k] - upper[i].ok)[:3]}")
        lower[i].ok = outs[k]
    ctx.cov["sc_programs_with_exact_rc11_lower_bound"] = len(chosen)


def oracle_selfcheck(ctx, progs, lower, upper, limit=60):
    """LoomSem's view machine vs. the axiomatic RC11 transcription on the eligible programs.
    A disagreement is a bug in the specifications: tool error, never a violation."""
    import shutil
    import random
    idx = [i for i, p in enumerate(progs) if ax_eligible(p) and not families.has_sc_access(p)]
    random.Random(ctx.seed).shuffle(idx)       # a different sample of the eligible programs per seed
    # candidate executions per program = prod(writes per location)! * prod(candidate stores per load): bound the total
    import math

    def cost(p):
        w, c = {}, 1
        for th in p["threads"][1:]:
            for i in th:
                if i["op"] in ("st", "rmw"): w[i["o"]] = w.get(i["o"], 0) + 1
        for n in w.values(): c *= math.factorial(n)
        for th in p["threads"]:
            for i in th:
                if i["op"] == "ld": c *= w.get(i["o"], 0) + 1
        return c
    budget = 30000 if ctx.tier == "quick" else 600000
    chosen = []
    for i in idx:
        if len(chosen) >= limit: break
        if cost(progs[i]) <= budget:
            budget -= cost(progs[i])
            chosen.append(i)
    idx = sorted(chosen)
    if not idx:
        return
    sub = [progs[i] for i in idx]
    for val, ref, lab in (("TRUE", lower, "lower"), ("FALSE", upper, "upper")):
        work = os.path.join(ctx.work, "ax_" + lab)
        os.makedirs(work, exist_ok=True)
        with open(os.path.join(work, "MCProgsMod.tla"), "w") as f:
            f.write(dsl.render_progs_module("MCProgsMod", sub))
        shutil.copy(os.path.join(tlc.SPECS, "MCAx.tla"), os.path.join(work, "MCAx.tla"))
        r = tlc.run_tlc(work, "MCAx", os.path.join(tlc.SPECS, f"MCAx_{val}.cfg"), workers=ctx.tlc_workers, timeout=1500)
        if "Model checking completed. No error has been found." not in r["text"]:
            open(os.path.join(work, "tlc_error.log"), "w").write(r["text"])
            raise tlc.ToolError(f"RC11Ax failed (see {work}/tlc_error.log)")
        ctx.add_tlc(r, "RC11Ax_" + lab)
        outs = [set() for _ in sub]
        for o in tlc.parse_out_lines(r["text"]):
            outs[o["p"] - 1].add(tlc.canon_outcome(o)[1])
        for k, i in enumerate(idx):
            if outs[k] != ref[i].ok:
                raise tlc.ToolError("oracle self-inconsistency: the view machine and axiomatic RC11 disagree on "
                                    f"[{dsl.pretty(progs[i])}] ({lab}): only view machine {sorted(ref[i].ok - outs[k])[:3]}, "
                                    f"only axiomatic {sorted(outs[k] - ref[i].ok)[:3]}")
    ctx.cov["oracle_selfcheck_programs"] = len(idx)


def exhaustive_part(ctx, progs, want, n_quick=250, label="exh"):
    """small-scope exhaustive family (all programs over a small alphabet): the full set in the thorough tier,
    a seeded slice in the quick tier.  Open findings: their shapes keep only the comparisons they do not affect."""
    import random
    if ctx.tier == "quick":
        rng = random.Random(ctx.seed * 8675309 + 7)
        progs = rng.sample(progs, min(n_quick, len(progs)))
    progs = [dsl.normalize(p) for p in progs]
    groups = {}
    for p in progs:
        w = set(want)
        if families.q_mo(p):
            w -= {"sound", "trace"}          # F3/F4
        if families.q_f16(p):
            w -= {"complete"}                # F16
        for k in families.waived(p):
            w.discard(k)                     # F13 / yield
        if w:
            groups.setdefault(tuple(sorted(w)), []).append(p)
    for w, ps in sorted(groups.items()):
        lower, upper = core.lower_upper(ctx, ps, families.has_sc_access)
        if "complete" in w:
            sc_lower_bound(ctx, ps, lower, upper)
        res = core.run_loom(ctx, ps, cfg_of=lambda p: {"iter_cap": iter_cap(ctx.tier), "trace_cap": 12 if "trace" in w else 0}, tag=label)
        nontriv = 0
        for p, lo, up, r in zip(ps, lower, upper, res):
            if core.compare_sandwich(ctx, p, lo, up, r, want=w):
                nontriv += 1
        if "trace" in w:
            core.validate_traces(ctx, ps, res, label="trace_" + label)
        ctx.cov["programs"] += len(ps)
        ctx.cov["evaluations"] += len(ps)
        ctx.cov["distinct_nontrivial"] += nontriv
    ctx.cov["exhaustive_small_scope_programs"] = ctx.cov.get("exhaustive_small_scope_programs", 0) + len(progs)
    ctx.cov["exhaustive"] = ctx.tier == "thorough"


def C02(ctx):
    ctx.assumptions += ["Lower(P) = LoomSem view machine with RC11 same-thread release sequences; programs with "
                        "SeqCst accesses use the interleaving outcomes (always RC11-consistent) as lower bound",
                        "<= 5 stores per location; no load buffering (po u rf acyclic is built into the machine)"]
    ctx.notes.append("random tail quarantined for the open finding F16 (families.q_f16)")
    memory_model(ctx, ("complete",), avoid=(families.q_f16,))
    exhaustive_part(ctx, families.exhaustive_atomics(), ("complete",), label="exh_atomics")


def C03(ctx):
    ctx.assumptions += ["Upper(P) = LoomSem view machine with the weakest documented synchronisation: SeqCst "
                        "accesses as acquire/release, no same-thread release sequences (C++20)",
                        "every store writes a distinct value per location, so an outcome fixes reads-from"]
    ctx.notes.append("random tail quarantined for open findings F3/F4 (families.q_mo); the enumerated core keeps "
                     "the multi-writer shapes and re-confirms the listed witnesses")
    memory_model(ctx, ("sound", "trace"), avoid=(families.q_mo,))
    exhaustive_part(ctx, families.exhaustive_atomics(), ("sound", "trace"), label="exh_atomics")
    # more stores than the tracked history: soundness only
    lh = [dsl.normalize(p) for p in families.long_history_shapes()]
    lo, up = core.lower_upper(ctx, lh, families.has_sc_access)
    rs = core.run_loom(ctx, lh, cfg_of=lambda p: {"iter_cap": iter_cap(ctx.tier), "trace_cap": 0}, tag="longhist")
    for p, l_, u_, r in zip(lh, lo, up, rs):
        core.compare_sandwich(ctx, p, l_, u_, r, want=("sound", "fails"))
    ctx.cov["programs"] += len(lh)


def sync_family(ctx, progs, want=("complete", "sound", "fails", "trace"), tcap=None, waive=True):
    """generic: Lower(P) <= loom(P) <= Upper(P), failure kinds, and trace validation of every recorded iteration"""
    lower, upper = core.lower_upper(ctx, progs, families.has_sc_access, coverage=True)
    tcap = tcap if tcap is not None else (30 if ctx.tier == "quick" else 300)
    res = core.run_loom(ctx, progs, cfg_of=lambda p: {"iter_cap": iter_cap(ctx.tier), "trace_cap": tcap if "trace" in want else 0})
    nontriv = 0
    for p, lo, up, r in zip(progs, lower, upper, res):
        # waivers (open findings) apply to generated programs only; directed shapes get the full comparison
        wv = families.waived(p) if waive and "sync" in p.get("tags", []) else {}
        if "yield" in families.ops_of(p):
            wv = dict(wv, complete="yield")
        for k, f in wv.items():
            if k in want:
                ctx.cov["waived"] = ctx.cov.get("waived", {})
                ctx.cov["waived"][f] = ctx.cov["waived"].get(f, 0) + 1
        if core.compare_sandwich(ctx, p, lo, up, r, want=tuple(w for w in want if w not in wv)):
            nontriv += 1
        core.sample(ctx, p, lo, up, r)
    if "trace" in want:
        core.validate_traces(ctx, progs, res)
    ctx.cov["programs"] += len(progs)
    ctx.cov["evaluations"] += len(progs)
    ctx.cov["distinct_nontrivial"] += nontriv
    return lower, upper, res



DPOR_SPACES_QUICK = [("dporA", 3, ["ld", "st", "csld", "csst"], ["x", "y"], ["m"], 2, 0),
                     ("dporN4", 4, ["ld", "st", "csld", "csst"], ["x", "y"], ["m"], 1, 0),
                     ("dporMain", 3, ["ld", "st", "csst"], ["x", "y"], ["m"], 1, 1),
                     ("dpor2m", 3, ["csld", "csst", "st"], ["x"], ["m", "n"], 2, 0)]
DPOR_SPACES_THOROUGH = DPOR_SPACES_QUICK + [("dporK3", 3, ["ld", "st"], ["x", "y"], ["m"], 3, 0),
                                            ("dporN4K2", 4, ["ld", "st"], ["x", "y"], ["m"], 2, 0),
                                            ("dporCs2", 3, ["cs2", "ld", "st"], ["x"], ["m"], 2, 1)]


def dpor_extra_spaces(which):
    import dporcheck
    S = {
        "chan": lambda: {"label": "dporChan", "n": 3, "progs": dporcheck.space2(3, ["send", "st", "ld"], ["recv", "tryrecv", "ld"], ["x"], ["m"], 2, 2, chan=True)},
        # channel operations inside critical sections (a receiver that blocks while it holds the mutex a sender needs: real deadlocks)
        "csch": lambda: {"label": "dporCsCh", "n": 3, "progs": dporcheck.space2(3, ["send", "cssend", "st"], ["recv", "csrecv", "tryrecv"], ["x"], ["m"], 2, 2, chan=True)},
        "trych": lambda: {"label": "dporTryCh", "n": 3, "invariants": ["Sound"],
                          "progs": dporcheck.space2(3, ["trysend", "send", "cssend"], ["csrecv", "recv"], ["x"], ["m"], 1, 2, chan=True)},
        # RwLock and Mutex nested in both orders: inversions across the two kinds of lock are real deadlocks, none is invented
        "rwmx": lambda: {"label": "dporRwMx", "n": 3, "progs": dporcheck.space(3, ["rdcs", "csrd", "wrcs", "cswr"], ["x"], ["m"], 1, 0)},
        "rwmx2": lambda: {"label": "dporRwMx2", "n": 3, "progs": dporcheck.space(3, ["rdcs", "csrd", "wrcs", "cswr"], ["x"], ["m"], 2, 0)},
        "rwmxtry": lambda: {"label": "dporRwMxTry", "n": 3, "invariants": ["Sound"],
                            "progs": dporcheck.space(3, ["rdcs", "wrcs", "cstryrd", "cstrywr"], ["x"], ["m"], 1, 0)},
        "arc1": lambda: {"label": "dporArc1", "n": 3, "progs": dporcheck.space2(3, ["acount", "aclonedrop", "ld"], ["acount"], ["x"], ["m"], 1, 1, arc=True)},
        "arc2": lambda: {"label": "dporArc2", "n": 3, "progs": dporcheck.space2(3, ["acount", "aclonedrop", "acloneinspectdrop"], [], ["x"], ["m"], 1, 0, arc=True)},
        # spaces in which the design itself is known to be incomplete (F15, F17, F13): conformance of the schedule sets only
        "park": lambda: {"label": "dporPark", "n": 3, "invariants": False,
                         "progs": dporcheck.space2(3, ["park", "ld", "st"], ["ld", "st"], ["x"], ["m"], 2, 1, unpark_to=(1, 2, 3))},
        "yield": lambda: {"label": "dporYield", "n": 3, "invariants": False, "progs": dporcheck.space(3, ["ld", "st", "csld", "yield"], ["x", "y"], ["m"], 2, 0)},
        "try": lambda: {"label": "dporTry", "n": 3, "invariants": ["Sound"], "progs": dporcheck.space(3, ["ld", "st", "csld", "try"], ["x"], ["m"], 2, 0)},
        # two mutexes, nested: a holder that blocks on the second lock next to one that only tries it (no deadlock between them;
        # TLC found the false deadlock F22 here: Sound)
        "try2": lambda: {"label": "dporTry2", "n": 3, "invariants": ["Sound"],
                         "progs": dporcheck.space(3, ["nest", "nesttry", "nestld", "st"], ["x"], ["m", "n"], 1, 0)},
        "try2b": lambda: {"label": "dporTry2b", "n": 3, "invariants": ["Sound"],
                          "progs": dporcheck.space(3, ["nest", "nesttry"], ["x"], ["m", "n"], 2, 0)},
        # main joins every thread (JoinHandle::join = Notify::wait) and reads the locations afterwards
        "join": lambda: {"label": "dporJoin", "n": 3, "progs": dporcheck.space_joined(3, ["ld", "st", "csst", "csld"], ["x", "y"], ["m"], 2, ["x", "y"])},
        # Condvar (FIFO wake-up, lost notifications, notify with and without the mutex): deadlocks are outcomes too
        "cv": lambda: {"label": "dporCv", "n": 3, "progs": dporcheck.space(3, ["cvw", "cvwld", "cvset1", "cvsetall", "cvn1in", "n1", "nall"], ["s"], ["m"], 1, 1)},
        "cv2": lambda: {"label": "dporCv2", "n": 3, "progs": dporcheck.space(3, ["cvwld", "cvset1", "n1", "ld"], ["s"], ["m"], 2, 0)},
        # sync::Notify: the spurious decision (a path entry of its own kind), a spurious return is a yield
        "nt": lambda: {"label": "dporNt", "n": 3, "progs": dporcheck.space2(3, ["stnotify", "notify", "st", "ld"], ["nwaitld", "nwait", "ld"], ["x"], ["m"], 1, 2)},
        "nt2": lambda: {"label": "dporNt2", "n": 2, "progs": dporcheck.space2(2, ["stnotify", "notify", "st"], ["nwaitld", "nwait", "ld"], ["x"], ["m"], 2, 3)},
        "rw": lambda: {"label": "dporRw", "n": 3, "progs": dporcheck.space(3, ["rdld", "wrst", "wrld", "ld", "st"], ["x"], ["m"], 2, 0)},
        "rw4": lambda: {"label": "dporRw4", "n": 4, "progs": dporcheck.space(4, ["rdld", "wrst", "rdst"], ["x"], ["m"], 1, 0)},
        "rwtry": lambda: {"label": "dporRwTry", "n": 3, "invariants": ["Sound"],
                          "progs": dporcheck.space(3, ["rdld", "wrst", "tryrd", "trywr"], ["x"], ["m"], 2, 0)},
        # exploration controls: stop_exploring regions around stores (loads inside a region return loom's default candidate),
        # reference = every decision outside a region is taken, none inside (Dpor.tla RefFrom with frozen scheduling)
        "rg": lambda: {"label": "dporRg", "n": 3, "progs": dporcheck.space(3, ["ld", "st", "rg", "rg1"], ["x", "y"], ["m"], 2, 0)},
        "rg3": lambda: {"label": "dporRg3", "n": 3, "progs": dporcheck.space(3, ["ld", "st", "rg1"], ["x", "y"], ["m"], 3, 0)},
        # regions whose thread may block inside (only main has regions: a second stop_exploring while frozen is a usage error)
        "rgcs": lambda: {"label": "dporRgCs", "n": 3, "progs": dporcheck.space2(3, ["ld", "csst", "st"], ["rgcs", "rg1", "ld"], ["x"], ["m"], 1, 2)},
        "rgcs2": lambda: {"label": "dporRgCs2", "n": 3, "progs": dporcheck.space2(3, ["ld", "csst", "st"], ["rgcs", "rg1", "ld"], ["x"], ["m"], 2, 2)},
        # skip_branch freezes every later decision, loads included: schedule sets only
        "skip": lambda: {"label": "dporSkip", "n": 3, "results": False, "progs": dporcheck.space(3, ["ld", "st", "skip"], ["x", "y"], ["m"], 2, 0)},
    }
    return [S[w]() for w in which]


def dpor_space(ctx, bounds, want, quick_sample=120, thorough_sample=0, spaces=None):
    """Dpor.tla over whole program spaces: the design's invariants (TLC), the property on the real loom for the same
    programs, and the conformance of the spec's predicted schedule sets (dporcheck.py)"""
    import dporcheck, random
    rng = random.Random(ctx.seed * 65537 + 7)
    ctx.assumptions.append("Dpor.tla program spaces: straight-line threads over SeqCst loads/stores and mutex sections; reference = full "
                           "interleaving semantics computed by TLC (RefOutcomes); loom may return more (SeqCst accesses are acquire/release)")
    if spaces is None:
        spaces = DPOR_SPACES_QUICK if ctx.tier == "quick" else DPOR_SPACES_THOROUGH
    return dporcheck.run(ctx, spaces, bounds, quick_sample if ctx.tier == "quick" else thorough_sample, rng, want=want)


def C01(ctx):
    ctx.assumptions += ["Spec_interleaved(P) (plain interleaving, no reduction) is the lower bound for programs with "
                        "SeqCst atomics; Upper(P) treats SeqCst accesses as acquire/release"]
    progs = families.syncmix(ctx.tier, ctx.seed)
    sync_family(ctx, progs)
    exhaustive_part(ctx, families.exhaustive_sync(), ("complete", "sound", "fails", "trace"), label="exh_sync")
    dpor_space(ctx, [None], ("C01",))
    dpor_space(ctx, [None], ("C01",), quick_sample=60, spaces=dpor_extra_spaces(["chan", "join"]))


def C04(ctx):
    ctx.assumptions += ["'must report' iff a race is reachable under the strongest documented synchronisation AND the weakest; "
                        "'must not report' iff unreachable under both; programs on which they disagree decide nothing",
                        "happens-before = vector clocks carried by LoomSem views (spawn/join, locks, channels, park token, "
                        "release/acquire incl. fences and release sequences)"]
    progs = families.races(ctx.tier, ctx.seed)
    sync_family(ctx, progs, want=("fails", "sound", "trace"))


def C05(ctx):
    ctx.assumptions += ["deadlock = some started thread not finished and no thread has a guaranteed step "
                        "(a spurious Notify return is never guaranteed)",
                        "park token independent of every other kind of blocking (std semantics)"]
    sync_family(ctx, families.blocking(ctx.tier, ctx.seed), want=("fails", "sound", "complete", "trace"))
    # Dpor.tla over nested sections of two mutexes: lock-order inversions must be reported (Complete), a holder that only TRIES
    # its second lock never deadlocks with anybody (Sound: F22)
    dpor_space(ctx, [None], ("C01",), quick_sample=30, spaces=dpor_extra_spaces(["try2", "trych", "rwmx", "rwmxtry"] + (["try2b", "csch", "rwmx2"] if ctx.tier == "thorough" else []))
               + [("dporNest", 3, ["nest", "csld"], ["x"], ["m", "n"], 1, 0)])


def C07(ctx):
    ctx.assumptions += ["trace validation evaluates the spec lock machine's enabling condition at every recorded "
                        "lock/try_lock/read/write/try_* event; protected cells make a missing hand-over edge a race"]
    sync_family(ctx, families.locks(ctx.tier, ctx.seed))
    # Dpor.tla with Mutex and RwLock (who is blocked, who is woken): whole program spaces; try_* spaces: the invariant Sound
    # (no false deadlock: F22) and conformance; completeness is not claimed for them (F13)
    dpor_space(ctx, [None], ("C01",), quick_sample=150, spaces=dpor_extra_spaces(["rw", "rwtry", "try", "try2"] + (["rw4", "try2b"] if ctx.tier == "thorough" else [])) +
               [("dpor2m", 3, ["csld", "csst", "st"], ["x"], ["m", "n"], 2, 0)])


def C08(ctx):
    ctx.assumptions += ["condvar: no spurious wake-ups; notify_one wakes any one waiter (Upper) / the first (Lower)",
                        "Notify: at most one spurious return per object (Upper) / none (Lower)"]
    sync_family(ctx, families.waits(ctx.tier, ctx.seed))
    # Dpor.tla with Condvar, park/unpark (conformance only: F15) and JoinHandle::join: whole program spaces
    dpor_space(ctx, [None], ("C01",), quick_sample=70, spaces=dpor_extra_spaces(["cv", "cv2", "park", "join"]))
    dpor_space(ctx, [None, 1], ("C01", "C15"), quick_sample=40, spaces=dpor_extra_spaces(["nt", "nt2"]))


def C09(ctx):
    ctx.assumptions += ["channel = FIFO sequence; send after the receiver was dropped queues nothing (std)"]
    sync_family(ctx, families.chans(ctx.tier, ctx.seed))
    # Dpor.tla with the channel's dependence classes: every program of the space, reference = full interleavings (TLC)
    dpor_space(ctx, [None], ("C01",), quick_sample=200, spaces=dpor_extra_spaces(["chan"]))
    dpor_space(ctx, [None], ("C01",), quick_sample=10, thorough_sample=400, spaces=dpor_extra_spaces(["csch"]))


def C10(ctx):
    ctx.assumptions += ["leak at termination = some arc count > 0, some Track not dropped (mem::forget keeps it live), "
                        "or a non-empty channel; whatever the program does not release is leaked by the interpreter, never released for it"]
    sync_family(ctx, families.leaks(ctx.tier, ctx.seed), want=("fails", "sound", "trace"))


def C11(ctx):
    ctx.assumptions += ["reference count machine: count/get_mut/try_unwrap read the count at that instant; payload dropped by "
                        "the decrement that reaches zero; the payload's Drop writes a cell every owner reads before dropping"]
    sync_family(ctx, families.arcs_family(ctx.tier, ctx.seed))
    # Dpor.tla with the Arc's dependence classes (increment / decrement / inspection)
    dpor_space(ctx, [None], ("C01",), quick_sample=0, spaces=dpor_extra_spaces(["arc1"] if ctx.tier == "quick" else ["arc1", "arc2"]))


def path_programs(ctx, n_per=None):
    """programs whose paths mix the three branch kinds (schedule, load, spurious), yields, blocked threads"""
    import random
    rng = random.Random(ctx.seed * 12289 + 31)
    pool = []
    pool += [p for p in families.litmus(ctx.tier, ctx.seed, avoid=(families.q_mo,)) if len(p["threads"]) <= 4]
    pool += families.syncmix(ctx.tier, ctx.seed)
    pool += families.waits(ctx.tier, ctx.seed)
    pool += families.chans(ctx.tier, ctx.seed)
    n_per = n_per or (60 if ctx.tier == "quick" else 400)
    rng.shuffle(pool)
    # a load with as many candidate stores as the tracked history holds (MAX_ATOMIC_HISTORY = 7: the initial value + 6 stores)
    full = [dsl.normalize(families.P("full-history-load", [dsl.spawn(2), dsl.ld("x"), dsl.join(2)], [dsl.st("x", v) for v in range(1, 7)])),
            dsl.normalize(families.P("full-history-rmw", [dsl.spawn(2), dsl.ld("x"), dsl.ld("x"), dsl.join(2)], [dsl.st("x", v) for v in range(1, 6)] + [dsl.swap("x", 6)]))]
    # programs whose later iterations depend on per-execution state being reset (SeqCst fence clock, statics, yield
    # counts): a checkpoint holds the Path only, so a resumed run equals the uninterrupted one only if nothing else
    # is carried from one iteration to the next
    A, _B = families.iso_base()
    full += [a for a in A if a.get("name") in ("iso-SB-scfence", "iso-scfence-stale", "iso-scfence-3", "iso-statics",
                                               "iso-yield-while-others-blocked")]
    # two thread-locals of one thread whose destructors perform loom operations (an RMW each, on two atomics another thread
    # reads): the order in which they are destroyed is part of the execution and must be the same in every iteration and run
    full.append(dsl.normalize({"threads": [[dsl.spawn(2), dsl.spawn(3), dsl.join(2), dsl.join(3)], [dsl.I("tlwith", "T0"), dsl.I("tlwith", "T1")],
                                            [dsl.ld("tl0c", "sc"), dsl.ld("tl1c", "sc")]],
                               "name": "tl-destructors-with-loom-operations", "atoms": ["tl0c", "tl1c"], "tags": ["c13only"]}))
    # a thread yields while it is the only one that can run and then makes another thread runnable before its next
    # scheduling point: who runs then is decided by per-execution thread state (yielded or not), which a resumed run
    # builds afresh and an uninterrupted run carries from the previous iteration's reset
    full.append(dsl.normalize(families.P("yield-alone-then-spawn", [dsl.spawn(2), dsl.ld("x"), dsl.join(2), dsl.I("yield"), dsl.spawn(3), dsl.ld("x"), dsl.join(3)],
                                         [dsl.st("x", 1)], [dsl.st("x", 2)])))
    full.append(dsl.normalize(families.P("yield-alone-in-thread-then-spawn", [dsl.spawn(2), dsl.ld("x"), dsl.join(2)],
                                         [dsl.st("x", 1), dsl.I("yield"), dsl.spawn(3), dsl.ld("x"), dsl.join(3)], [dsl.st("x", 2)])))
    full.append(dsl.normalize(families.P("yield-alone-then-unpark", [dsl.spawn(2), dsl.ld("x"), dsl.I("yield"), dsl.unpark(2), dsl.ld("x"), dsl.join(2)],
                                         [dsl.st("x", 1), dsl.I("park"), dsl.st("x", 2)])))
    return full + pool[:max(0, n_per - len(full))]


def C14(ctx):
    import pathcheck, loomrun
    ctx.assumptions += ["the iteration hook hands over serde_json(rt::Path) after each iteration and after each step; "
                        "ExploreTrace.tla re-computes Path::step from the recorded state and compares exactly",
                        "termination is observed (the run returned) and implied by strict DFS advance on a finite tree"]
    progs = path_programs(ctx)
    cap = 3000 if ctx.tier == "quick" else 40000
    res = core.run_loom(ctx, progs, cfg_of=lambda p: {"iter_cap": cap, "want_paths": True}, tag="paths")
    runs = []
    nontriv = 0
    for i, (p, r) in enumerate(zip(progs, res)):
        if r["end"].startswith("abort") or r["end"] == "hang":
            ctx.violation("abort", p, r["end"], {"msg": r["msg"]})
            continue
        runs.append(({"prog": i}, r["hook_events"]))
        # independent of the spec: decision sequences pairwise distinct, count = iterations
        decs = [pathcheck.decisions(pathcheck.canon_path(path)) for (ph, it, path) in r["hook_events"] if ph == "end"]
        if len(set(decs)) != len(decs):
            ctx.violation("repeated-execution", p, {"iterations": len(decs), "distinct": len(set(decs))}, {})
        if r["end"] == "ok" and len(decs) != r["iters"]:
            ctx.violation("iteration-count", p, {"iterations": r["iters"], "paths": len(decs)}, {})
        if len(decs) >= 2:
            nontriv += 1
        kinds = {e["k"] for (ph, it, path) in r["hook_events"][:3] if ph == "end" for e in pathcheck.canon_path(path)["br"]}
        ctx.cov.setdefault("branch_kinds_seen", {})
        for k in kinds:
            ctx.cov["branch_kinds_seen"][k] = ctx.cov["branch_kinds_seen"].get(k, 0) + 1
    # the same under a preemption bound (the bounded engine has code of its own: Schedule::backtrack, the conservative point)
    bprogs = [(i, p) for i, (p, r) in enumerate(zip(progs, res)) if r["end"] == "ok" and 4 <= r["iters"] <= 3000][: (16 if ctx.tier == "quick" else 80)]
    bitems = [{"prog": p, "cfg": {"iter_cap": cap, "want_paths": True, "preemption_bound": b}} for (i, p) in bprogs for b in (1, 2, 3)]
    BR = loomrun.run_items(os.path.join(ctx.work, "bounded"), bitems, jobs=ctx.jobs, tag="bounded") if bitems else []
    for k, r in enumerate(BR):
        i, p = bprogs[k // 3]
        b = (1, 2, 3)[k % 3]
        if r["end"] not in ("ok", "capped"):
            ctx.violation("bounded-run-failed", p, {"bound": b, "end": r["end"]}, {"msg": r["msg"][:200]})
            continue
        decs = [pathcheck.decisions(pathcheck.canon_path(path)) for (ph, it, path) in r["hook_events"] if ph == "end"]
        if len(set(decs)) != len(decs):
            ctx.violation("repeated-execution", p, {"bound": b, "iterations": len(decs), "distinct": len(set(decs))}, {})
        # (a bounded run may well take MORE iterations than the unbounded one: the conservative backtrack points undo part
        # of the reduction; only repetitions count)
        if len(r["hook_events"]) < 4000:
            runs.append(({"prog": i, "bound": b}, r["hook_events"]))
    # an exploration that is stopped and resumed from its checkpoint is still ONE exploration: no execution twice
    ck = os.path.join(ctx.work, "ckpt")
    os.makedirs(ck, exist_ok=True)
    cand = [(i, p, r) for i, (p, r) in enumerate(zip(progs, res)) if r["end"] == "ok" and 6 <= r["iters"] <= 600][: (4 if ctx.tier == "quick" else 20)]
    ja, jm = [], []
    for (i, p, r) in cand:
        for k in sorted({2, max(3, r["iters"] // 2), r["iters"] - 1}):
            f = os.path.join(ck, f"p{i}_k{k}.json")
            if os.path.exists(f):
                os.remove(f)
            ja.append({"prog": p, "cfg": {"want_paths": True, "checkpoint_file": f, "checkpoint_interval": 1, "max_permutations": k}})
            jm.append((i, k, f))
    if ja:
        RA = loomrun.run_items(os.path.join(ctx.work, "resA"), ja, jobs=ctx.jobs, tag="resA")
        RB = loomrun.run_items(os.path.join(ctx.work, "resB"), [{"prog": j["prog"], "cfg": {"want_paths": True, "checkpoint_file": m[2],
                                                                 "checkpoint_interval": 100000}} for j, m in zip(ja, jm)], jobs=ctx.jobs, tag="resB")
        for (i, k, f), ra, rb in zip(jm, RA, RB):
            da = [pathcheck.decisions(pathcheck.canon_path(path)) for (ph, it, path) in ra["hook_events"] if ph == "end"]
            db = [pathcheck.decisions(pathcheck.canon_path(path)) for (ph, it, path) in rb["hook_events"] if ph == "end"]
            if ra["end"] != "ok" or rb["end"] != "ok":
                ctx.violation("resume-failed", progs[i], {"k": k, "endA": ra["end"], "endB": rb["end"]}, {"msgB": rb["msg"]})
            elif len(set(da + db)) != len(da) + len(db) or len(da) + len(db) != res[i]["iters"]:
                ctx.violation("repeated-execution", progs[i], {"stopped_after": len(da), "resumed": len(db), "distinct": len(set(da + db)),
                                                               "uninterrupted": res[i]["iters"]}, {"note": "stop + resume"})
            runs.append(({"prog": i, "resumed_after": k}, rb["hook_events"]))
        ctx.cov["stop_resume_pairs"] = len(ja)
    rej = pathcheck.validate(ctx, runs)
    for meta, info in rej:
        ctx.violation("path-rejected", progs[meta["prog"]], info, {"note": "first hook event ExploreTrace could not match"})
    import enginecheck
    enginecheck.run_engine(ctx, ["ExploreMC_small.cfg", "ExploreMC_hash_b99.cfg"] +
                           (["ExploreMC_hash_b1.cfg", "ExploreMC_small_b1.cfg"] if ctx.tier == "thorough" else []))
    dpor_space(ctx, [None, 1], (), quick_sample=40)          # NoRepeat of the design + predicted = executed schedule sets
    dpor_space(ctx, [None, 1], (), quick_sample=60, thorough_sample=400, spaces=dpor_extra_spaces(["park", "yield", "try", "chan"]))
    ctx.cov["programs"] += len(progs)
    ctx.cov["evaluations"] += sum(len(r["hook_events"]) for r in res)
    ctx.cov["distinct_nontrivial"] += nontriv
    if res and res[0]["hook_events"]:
        ctx.cov["samples"].append({"program": dsl.pretty(progs[0]), "first_path": pathcheck.canon_path(res[0]["hook_events"][1][2]) if len(res[0]["hook_events"]) > 1 else None})


def C13(ctx):
    import pathcheck, enginecheck, random
    ctx.assumptions += ["resume oracle = Explore.tla: with checkpoint_interval c and max_permutations m the loop stops before "
                        "iteration s = FirstStop(m, c) having stored the path of iteration s; the resumed run must replay "
                        "iterations s..N of the uninterrupted run exactly (paths and outcomes), ExploreTrace validates both runs",
                        "each run_items call is a fresh driver process"]
    rng = random.Random(ctx.seed * 2477 + 37)
    pool = [p for p in path_programs(ctx, 200)]
    # uninterrupted reference runs (twice: determinism)
    cfgU = {"want_paths": True, "want_seq": True, "iter_cap": 2500}
    U1 = core.run_loom(ctx, pool, cfg_of=lambda p: cfgU, tag="u1")
    for p, r in zip(pool, U1):
        # (the families' own checks decide failing programs; here only what loom itself cannot explain: an internal panic
        # - e.g. a replayed iteration that does not follow its path - or an abort)
        if r["end"] in ("other", "hang") or r["end"].startswith("abort"):
            ctx.violation("unexpected-panic", p, r["end"], {"msg": r["msg"][:200], "iters": r["iters"]})
    base = [(p, r) for p, r in zip(pool, U1) if r["end"] == "ok" and 3 <= r["iters"] <= 2000]
    base = base[: (17 if ctx.tier == "quick" else 60)]
    progs = [p for p, _ in base]
    U1 = [r for _, r in base]
    U2 = core.run_loom(ctx, progs, cfg_of=lambda p: cfgU, tag="u2")
    for p, a, b in zip(progs, U1, U2):
        if a["hook_events"] != b["hook_events"] or a["seq"] != b["seq"] or a["seq_keys"] != b["seq_keys"]:
            ctx.violation("nondeterministic", p, {"iters": [a["iters"], b["iters"]]}, {})
    # stop / resume
    ck = os.path.join(ctx.work, "ckpt")
    os.makedirs(ck, exist_ok=True)
    jobsA, meta = [], []
    for pi, (p, u) in enumerate(zip(progs, U1)):
        N = u["iters"]
        ks = list(range(1, N + 2)) if N <= 12 else sorted(set([1, 2, 3, N - 1, N, N + 1] + [rng.randint(1, N) for _ in range(8 if ctx.tier == "quick" else 30)]))
        # the longest path of the uninterrupted run = the smallest max_branches with which it passes
        need = max(len(pathcheck.canon_path(pth)["br"]) for (ph, it, pth) in u["hook_events"] if ph == "end")
        for k in ks:
            for c in ([1, 3] if ctx.tier == "quick" else [1, 2, 3, 7]):
                f = os.path.join(ck, f"p{pi}_k{k}_c{c}.json")
                if os.path.exists(f):
                    os.remove(f)
                jobsA.append({"prog": p, "cfg": {"want_paths": True, "want_seq": True, "checkpoint_file": f,
                                                  "checkpoint_interval": c, "max_permutations": k}})
                meta.append((pi, k, c, f))
        # ... and the same with exactly that budget: a resumed run has the same branch budget as the uninterrupted one
        for k in ks[:: max(1, len(ks) // 6)]:
            f = os.path.join(ck, f"p{pi}_k{k}_tight.json")
            if os.path.exists(f):
                os.remove(f)
            jobsA.append({"prog": p, "cfg": {"want_paths": True, "want_seq": True, "checkpoint_file": f, "checkpoint_interval": 1,
                                              "max_permutations": k, "max_branches": need}})
            meta.append((pi, k, 1, f))
    import loomrun
    RA = loomrun.run_items(os.path.join(ctx.work, "runA"), jobsA, jobs=ctx.jobs, tag="runA")
    jobsB = [{"prog": j["prog"], "cfg": {"want_paths": True, "want_seq": True, "checkpoint_file": m[3],
                                         "checkpoint_interval": 100000,
                                         **({"max_branches": j["cfg"]["max_branches"]} if "max_branches" in j["cfg"] else {})}}
             for j, m in zip(jobsA, meta)]
    RB = loomrun.run_items(os.path.join(ctx.work, "runB"), jobsB, jobs=ctx.jobs, tag="runB")
    runs = []
    pairs = 0
    for (pi, k, c, f), ra, rb in zip(meta, RA, RB):
        p, u = progs[pi], U1[pi]
        N = u["iters"]
        s_ = min(i for i in range(1, k + c + 1) if i % c == 0 and i >= k)       # FirstStop(k, c), cross-checked by TLC (Limits)
        expA = min(N, s_ - 1)
        useq = [u["seq_keys"][i] for i in u["seq"]]
        aseq = [ra["seq_keys"][i] for i in ra["seq"]]
        bseq = [rb["seq_keys"][i] for i in rb["seq"]]
        uend = [pth for (ph, it, pth) in u["hook_events"] if ph == "end"]
        bend = [pth for (ph, it, pth) in rb["hook_events"] if ph == "end"]
        pairs += 1
        if ra["end"] != "ok" or rb["end"] != "ok":
            ctx.violation("resume-failed", p, {"k": k, "c": c, "endA": ra["end"], "endB": rb["end"]}, {"msgA": ra["msg"], "msgB": rb["msg"]})
            continue
        if ra["iters"] != expA or aseq != useq[:expA]:
            ctx.violation("stop-point", p, {"k": k, "c": c, "ran": ra["iters"], "expected": expA}, {})
        if expA >= N:
            # the exploration was exhausted before the stop: nothing to resume (B re-runs whatever the file holds)
            continue
        if bseq != useq[s_ - 1:] or bend != uend[s_ - 1:]:
            ctx.violation("resume-diverges", p, {"k": k, "c": c, "stored_iteration": s_, "resumed_iters": rb["iters"],
                                                 "expected_iters": N - s_ + 1}, {})
        runs.append(({"prog": pi, "k": k, "c": c, "run": "A"}, ra["hook_events"]))
        runs.append(({"prog": pi, "k": k, "c": c, "run": "B"}, rb["hook_events"]))
    ctx.cov["stop_resume_pairs"] = pairs
    # a run that crashes, is resumed, crashes AGAIN before its next checkpoint, and is resumed again: the file on disk still
    # holds the last stored checkpoint (interval 3: crash in iteration 8 -> stored before #6; the resumed run crashes in its
    # 2nd iteration, before it stores anything; the third run must continue from #6)
    dbl = [(pi, p, u) for pi, (p, u) in enumerate(zip(progs, U1)) if u["iters"] >= 12][:3]
    for (pi, p, u) in dbl:
        f = os.path.join(ck, f"dbl{pi}.json")
        if os.path.exists(f):
            os.remove(f)
        cfg0 = {"want_seq": True, "checkpoint_file": f, "checkpoint_interval": 3}
        a = loomrun.run_items(os.path.join(ctx.work, "dblA"), [{"prog": p, "cfg": dict(cfg0, panic_at_iter=8)}], jobs=1, tag="dblA")[0]
        b = loomrun.run_items(os.path.join(ctx.work, "dblB"), [{"prog": p, "cfg": dict(cfg0, panic_at_iter=2)}], jobs=1, tag="dblB")[0]
        c = loomrun.run_items(os.path.join(ctx.work, "dblC"), [{"prog": p, "cfg": dict(cfg0)}], jobs=1, tag="dblC")[0]
        useq = [u["seq_keys"][i] for i in u["seq"]]
        cseq = [c["seq_keys"][i] for i in c["seq"]]
        if a["end"] != "panic" or b["end"] != "panic":
            ctx.violation("resume-failed", p, {"scenario": "crash, resume, crash, resume", "endA": a["end"], "endB": b["end"]}, {"msgB": b["msg"][:200]})
        elif c["end"] != "ok" or cseq != useq[5:]:
            ctx.violation("resume-diverges", p, {"scenario": "crash in #8 (interval 3), resumed run crashes in its 2nd iteration, third run",
                                                 "third_run_iters": c["iters"], "expected_iters": u["iters"] - 5, "end": c["end"]}, {})
        ctx.cov["double_resume_runs"] = ctx.cov.get("double_resume_runs", 0) + 1
    # failing iteration: the checkpoint written (interval 1) before the failing iteration reproduces it first
    fails = [dsl.normalize(q) for q in [
        families.P("fail-race", [dsl.spawn(2), dsl.ld("x"), dsl.wr("c"), dsl.join(2)], [dsl.st("x", 1), dsl.rd("c")]),
        families.P("fail-assert", families.SJ(2) + families.JJ(2), [dsl.st("x", 1), dsl.st("y", 1)],
                   [dsl.ld("y"), dsl.ld("x"), dsl.br(2, 1, 2), dsl.br(1, 0, 1), dsl.I("panic")]),
        families.P("fail-deadlock", families.SJ(2) + families.JJ(2), families.CS("m", dsl.ld("x"), *families.CS("n")),
                   families.CS("n", dsl.ld("x"), *families.CS("m"))),
    ]]
    fa = []
    for i, q in enumerate(fails):
        f = os.path.join(ck, f"fail{i}.json")
        if os.path.exists(f):
            os.remove(f)
        fa.append({"prog": q, "cfg": {"checkpoint_file": f, "checkpoint_interval": 1, "want_seq": True}})
    FA = loomrun.run_items(os.path.join(ctx.work, "failA"), fa, jobs=ctx.jobs, tag="failA")
    FB = loomrun.run_items(os.path.join(ctx.work, "failB"), fa, jobs=ctx.jobs, tag="failB")
    for q, a, b in zip(fails, FA, FB):
        if a["end"] == "ok":
            ctx.notes.append(f"failing-iteration program {q.get('name')} did not fail")
            continue
        if b["end"] != a["end"] or b["msg"] != a["msg"] or b["iters"] != 0 or b["fail_trace"] != a["fail_trace"]:
            ctx.violation("failure-not-reproduced", q, {"endA": a["end"], "itersA": a["iters"], "endB": b["end"], "itersB": b["iters"]},
                          {"msgA": a["msg"], "msgB": b["msg"]})
        ctx.cov["failing_checkpoints_reproduced"] = ctx.cov.get("failing_checkpoints_reproduced", 0) + 1
    rej = pathcheck.validate(ctx, runs)
    for meta_, info in rej:
        ctx.violation("path-rejected", progs[meta_["prog"]], {"k": meta_["k"], "c": meta_["c"], "run": meta_["run"], **info}, {})
    enginecheck.run_engine(ctx, ["ExploreMC_hash_b99.cfg", "ExploreMC_hash_b1.cfg"])
    ctx.cov["programs"] += len(progs)
    ctx.cov["evaluations"] += pairs
    ctx.cov["distinct_nontrivial"] += pairs
    if progs:
        ctx.cov["samples"].append({"program": dsl.pretty(progs[0]), "iterations": U1[0]["iters"], "stop_points": sorted({m[1] for m in meta if m[0] == 0})})


def C15(ctx):
    import pathcheck, enginecheck, random, loomrun
    ctx.assumptions += ["'could have continued' = the previous thread's next instruction is enabled in the LoomSem state and is not "
                        "a voluntary yield; the op-level count can only be smaller than loom's branch-level count",
                        "programs with yield / await / Notify::wait are not in this family (voluntary yields)"]
    rng = random.Random(ctx.seed * 4099 + 41)
    pool = [p for p in families.litmus(ctx.tier, ctx.seed, avoid=(families.q_mo, families.q_f16)) if len(p["threads"]) <= 4]
    pool += [p for p in families.syncmix(ctx.tier, ctx.seed)]
    pool += [p for p in families.locks(ctx.tier, ctx.seed)]
    pool += [p for p in families.waits(ctx.tier, ctx.seed) if families.ops_of(p) & {"park", "unpark"}]
    pool = [p for p in pool if not (families.ops_of(p) & {"yield", "await"})]
    # open finding F13: the failing try_* outcome is only reached through the conservative backtrack points of bounded
    # runs, never by the unbounded run; generated programs with try_* decide nothing here (a directed witness is kept below)
    pool = [p for p in pool if not (families.ops_of(p) & {"trylock", "tryread", "trywrite"})]
    pool = [p for p in pool if not families.q_mo(p) and not families.q_f16(p)]     # open findings F3/F4/F16: their shapes decide nothing here
    rng.shuffle(pool)
    pool = pool[: (45 if ctx.tier == "quick" else 300)]
    # a thread that holds a park token is still a thread that can continue
    pool = [dsl.normalize(families.P("token-holder-keeps-running", [dsl.spawn(2), dsl.unpark(2), dsl.fadd("x", 1, "acqrel"), dsl.fadd("x", 2, "acqrel"), dsl.join(2)],
                                     [dsl.fadd("x", 4, "acqrel"), dsl.fadd("x", 8, "acqrel"), dsl.I("park")])),
            # the later of two racing threads is blocked (parked / joining) at the earlier access; a third thread wakes it
            dsl.normalize(families.P("parked-racer", [dsl.spawn(2), dsl.spawn(3), dsl.spawn(4), dsl.join(2), dsl.join(3), dsl.join(4)],
                                     [dsl.I("park"), dsl.fadd("x", 10, "sc")], [dsl.st("x", 1, "sc")], [dsl.unpark(2)])),
            dsl.normalize(families.P("joining-racer", [dsl.spawn(2), dsl.spawn(3), dsl.join(2), dsl.join(3)],
                                     [dsl.spawn(4), dsl.join(4), dsl.fadd("x", 10, "sc")], [dsl.st("x", 1, "sc")], [dsl.ld("y")])),
            dsl.normalize(families.P("receiving-racer", [dsl.spawn(2), dsl.spawn(3), dsl.spawn(4), dsl.join(2), dsl.join(3), dsl.join(4)],
                                     [dsl.I("recv", "ch"), dsl.fadd("x", 10, "sc"), dsl.I("droprx", "ch")], [dsl.st("x", 1, "sc")], [dsl.I("send", "ch", v=5)])),
            dsl.normalize(families.P("token-holder-3", [dsl.spawn(2), dsl.spawn(3), dsl.unpark(3), dsl.ld("x"), dsl.join(2), dsl.join(3)],
                                     [dsl.fadd("x", 1), dsl.ld("y")], [dsl.st("y", 1), dsl.fadd("x", 2), dsl.I("park")]))] + pool
    # unbounded reference
    U = core.run_loom(ctx, pool, cfg_of=lambda p: {"iter_cap": 200000}, tag="unb")
    progs = [p for p, u in zip(pool, U) if u["end"] == "ok"]
    U = [u for u in U if u["end"] == "ok"]
    nops = [sum(len(t) for t in p["threads"]) for p in progs]
    bounds = list(range(0, 7))
    items, meta = [], []
    for i, p in enumerate(progs):
        for n in bounds + [max(7, nops[i])]:
            items.append({"prog": p, "cfg": {"preemption_bound": n, "trace_cap": 25 if ctx.tier == "quick" else 200,
                                             "want_paths": True, "path_cap": 400, "iter_cap": 200000}})
            meta.append((i, n))
    R = loomrun.run_items(os.path.join(ctx.work, "bounded"), items, jobs=ctx.jobs, tag="bounded")
    ctx.cov["loom_iterations"] += sum(r.get("iters", 0) for r in R)
    keys = {}
    for (i, n), r in zip(meta, R):
        p = progs[i]
        if r["end"] == "capped":
            ctx.cov["capped_programs"] += 1       # too many iterations for this tier: decides nothing
            continue
        if r["end"] != "ok":
            ctx.violation("bounded-run-failed", p, {"bound": n, "end": r["end"]}, {"msg": r["msg"]})
            continue
        keys[(i, n)] = loomrun.loom_keys(r)
    nontriv = 0
    for i, p in enumerate(progs):
        ku = loomrun.loom_keys(U[i])
        prev = None
        for n in bounds + [max(7, nops[i])]:
            k = keys.get((i, n))
            if k is None:
                continue
            for w in sorted(k - ku):
                ctx.violation("bounded-not-in-unbounded", p, {"bound": n, "outcome": w}, {})
            if prev is not None:
                for w in sorted(prev[1] - k):
                    ctx.violation("not-monotone", p, {"bound_small": prev[0], "bound_large": n, "outcome": w}, {})
            prev = (n, k)
        big = keys.get((i, max(7, nops[i])))
        if big is not None:
            for w in sorted(ku - big):
                ctx.violation("large-bound-incomplete", p, {"bound": max(7, nops[i]), "outcome": w}, {"ops": nops[i]})
        if len(ku) >= 2 and keys.get((i, 0)) is not None and len(keys[(i, 0)]) < len(ku):
            nontriv += 1
    # every recorded iteration: independent preemption count <= n (LoomSemTrace) and pushed schedules within bound (ExploreTrace)
    tp = [progs[i] for (i, n) in meta]
    import core as _c
    _c.validate_traces(ctx, tp, R, pb_of=lambda j: meta[j][1], label="trace_bounded")
    runs = [({"prog": meta[j][0], "bound": meta[j][1]}, R[j]["hook_events"]) for j in range(len(R)) if R[j]["end"] == "ok"
            and len(R[j]["hook_events"]) < 400]
    rej = pathcheck.validate(ctx, runs)
    for m, info in rej:
        ctx.violation("path-rejected", progs[m["prog"]], {"bound": m["bound"], **info}, {})
    enginecheck.run_engine(ctx, ["ExploreMC_small_b1.cfg", "ExploreMC_hash_b0.cfg", "ExploreMC_hash_b1.cfg", "ExploreMC_hash_b2.cfg"])
    # (six complete explorations per program: the bigger spaces of the thorough tier are C01's, with one bound)
    dpor_space(ctx, [0, 1, 2, 3, 16, None], ("C15",), quick_sample=60, thorough_sample=500, spaces=DPOR_SPACES_QUICK)
    # straight-line programs with yield_now (found by TLC on Dpor.tla with the "yield" block kind): result sets only
    ys = [dsl.normalize(q) for q in [
        families.P("yield-then-store", [dsl.spawn(2), dsl.spawn(3), dsl.join(2), dsl.join(3)], [dsl.ld("x", "sc"), dsl.ld("y", "sc")],
                   [dsl.I("yield"), dsl.st("x", 32, "sc")]),
        families.P("yield-then-store-nojoin", [dsl.spawn(2), dsl.spawn(3)], [dsl.ld("x", "sc"), dsl.ld("y", "sc")],
                   [dsl.I("yield"), dsl.st("x", 32, "sc")]),
        families.P("yield-then-load", [dsl.spawn(2), dsl.spawn(3), dsl.join(2), dsl.join(3)], [dsl.st("x", 21, "sc"), dsl.ld("y", "sc")],
                   [dsl.I("yield"), dsl.ld("x", "sc")]),
        families.P("store-then-yield", [dsl.spawn(2), dsl.spawn(3), dsl.join(2), dsl.join(3)], [dsl.ld("x", "sc"), dsl.ld("y", "sc")],
                   [dsl.st("x", 32, "sc"), dsl.I("yield")]),
        # F13 seen through the bound: try_lock fails only under a bound
        families.P("F13-trylock-fails-only-bounded", [dsl.spawn(2), dsl.spawn(3), dsl.spawn(4), dsl.join(2), dsl.join(3), dsl.join(4), dsl.ld("x", "sc"), dsl.ld("y", "sc")],
                   [dsl.ld("x", "sc")], [dsl.I("trylock", "n"), dsl.br(1, 1, 1), dsl.I("unlock", "n")],
                   [dsl.ld("y", "sc"), dsl.I("lock", "n"), dsl.wr("c_n"), dsl.st("x", 1, "sc"), dsl.I("unlock", "n")]),
    ]]
    yb = [0, 1, 2, 3, 4, None]
    YR = loomrun.run_items(os.path.join(ctx.work, "yield"), [{"prog": q, "cfg": ({"preemption_bound": b} if b is not None else {})}
                                                             for q in ys for b in yb], jobs=ctx.jobs, tag="yield")
    for qi, q in enumerate(ys):
        rs = YR[qi * len(yb):(qi + 1) * len(yb)]
        if any(r["end"] != "ok" for r in rs):
            ctx.violation("bounded-run-failed", q, {"ends": [r["end"] for r in rs]}, {})
            continue
        ku = loomrun.loom_keys(rs[-1])
        prev = None
        for b, r in zip(yb[:-1], rs[:-1]):
            k = loomrun.loom_keys(r)
            for w in sorted(k - ku):
                ctx.violation("bounded-not-in-unbounded", q, {"bound": b, "outcome": w}, {})
            if prev is not None:
                for w in sorted(prev[1] - k):
                    ctx.violation("not-monotone", q, {"bound_small": prev[0], "bound_large": b, "outcome": w}, {})
            prev = (b, k)
    ctx.cov["programs"] += len(ys)
    ctx.cov["programs"] += len(progs)
    ctx.cov["evaluations"] += len(items)
    ctx.cov["distinct_nontrivial"] += nontriv
    ctx.cov["rule"] = "non-trivial = programs whose bound-0 result set is strictly smaller than the unbounded one"
    if progs:
        ctx.cov["samples"].append({"program": dsl.pretty(progs[0]), "outcomes_by_bound": {str(n): len(keys.get((0, n), [])) for n in bounds},
                                   "unbounded": len(loomrun.loom_keys(U[0]))})


def checkloop_expected(ctx, grid):
    """TLC evaluates CheckLoop.tla on the grid: {(n,m,c,d): (ran, stored)}"""
    import re, shutil
    work = os.path.join(ctx.work, "checkloop")
    os.makedirs(work, exist_ok=True)
    with open(os.path.join(work, "MCCheckLoop.tla"), "w") as f:
        f.write("---- MODULE MCCheckLoop ----\nEXTENDS CheckLoop\nMCGrid == {" +
                ", ".join(f"<<{n}, {m}, {c}, {d}>>" for (n, m, c, d) in sorted(grid)) + "}\n====\n")
    r = tlc.run_tlc(work, "MCCheckLoop", os.path.join(tlc.SPECS, "CheckLoop.cfg"), workers=4, timeout=600)
    if "Model checking completed. No error has been found." not in r["text"]:
        open(os.path.join(work, "tlc_error.log"), "w").write(r["text"])
        m = re.search(r"Invariant (\w+) is violated", r["text"])
        if m:
            ctx.violation("engine-invariant", None, {"spec": "CheckLoop", "invariant": m.group(1)}, {"log": os.path.join(work, "tlc_error.log")})
            return {}
        raise tlc.ToolError(f"CheckLoop failed (see {work}/tlc_error.log)")
    ctx.add_tlc(r, "CheckLoop")
    checkloop_inductive(ctx)
    exp = {}
    for m in re.finditer(r'^<<"LIM", (\d+), (\d+), (\d+), (\d+), (\d+), (\d+)>>$', r["text"], re.M):
        n, mm, c, d, ran, stored = map(int, m.groups())
        exp[(n, mm, c, d)] = (ran, stored)
    return exp


def checkloop_inductive(ctx):
    """Apalache: the loop bound of CheckLoop for EVERY n and max_permutations (unbounded integers), per checkpoint interval:
    Init => IndInv, IndInv /\\ Next => IndInv', IndInv => NoLaterThanBoundary; and a false bound must be refuted (non-vacuity).
    Thorough tier only; a missing or failing tool is recorded as a note (TLC's grid is the registered oracle)."""
    import subprocess, shutil
    if ctx.tier != "thorough":
        return
    if shutil.which("apalache-mc") is None:
        ctx.notes.append("apalache-mc not on PATH: inductive loop bound not attempted")
        return
    work = os.path.join(ctx.work, "checkloop_ind")
    os.makedirs(work, exist_ok=True)
    spec = os.path.join(tlc.SPECS, "ind", "CheckLoopInd.tla")
    done = 0
    for c in (1, 2, 3, 5, 20000):
        for nm, args, want_ok in (("base", ["--init=Init", "--inv=IndInv", "--length=0"], True),
                                  ("step", ["--init=IndInit", "--inv=IndInv", "--length=1"], True),
                                  ("implies", ["--init=IndInit", "--inv=NoLaterThanBoundary", "--length=0"], True)) + \
                                 ((("refute", ["--init=Init", "--inv=TooStrong", "--length=8"], False),) if c == 3 else ()):
            try:
                r = subprocess.run(["timeout", "600", "apalache-mc", "check", f"--cinit=ConstInit{c}", f"--out-dir={work}/out", f"--run-dir={work}/run"] + args + [spec],
                                   capture_output=True, text=True, cwd=work)
            except OSError as e:
                ctx.notes.append(f"apalache-mc could not be run: {e}")
                return
            ok = "The outcome is: NoError" in r.stdout
            err = "The outcome is: Error" in r.stdout
            if not ok and not err:
                ctx.notes.append(f"apalache-mc gave no verdict for C={c} {nm} (rc={r.returncode}): inductive loop bound incomplete")
                return
            if ok != want_ok:
                ctx.violation("engine-invariant", None, {"spec": "CheckLoopInd", "obligation": nm, "interval": c},
                              {"note": "Apalache refutes an obligation of the inductive loop bound" if want_ok else "Apalache accepts a bound that is false: the check is vacuous"})
            done += 1
    ctx.cov["apalache_obligations"] = done
    ctx.notes.append(f"CheckLoopInd.tla: {done} Apalache obligations discharged (loop bound for all n, max_permutations; intervals 1, 2, 3, 5, 20000)")


def with_region(p, t, a, b, skip=False):
    """copy of p with stop_exploring before instruction a and explore after instruction b-1 of thread t (1-based thread)"""
    import copy
    q = copy.deepcopy(p)
    th = q["threads"][t - 1]
    if skip:
        th.insert(a, dsl.I("skipb"))
    else:
        th.insert(b, dsl.I("explore"))
        th.insert(a, dsl.I("stopx"))
    q["name"] = (p.get("name") or "") + (f"+skip[{t}:{a}]" if skip else f"+region[{t}:{a}-{b}]")
    return families.fix_br_skips(q, t, a, b, skip)


def C19(ctx):
    import pathcheck, enginecheck, random, loomrun, copy
    ctx.assumptions += ["stop_exploring/explore/skip_branch do not change what an execution means (Nop in LoomSem): every "
                        "iteration must still trace-validate and the result set must be a subset of the unrestricted one",
                        "limits: expected iteration counts come from CheckLoop.tla (TLC), the needed max_branches is the "
                        "longest recorded path"]
    rng = random.Random(ctx.seed * 5003 + 43)
    pool = [p for p in families.litmus(ctx.tier, ctx.seed, avoid=(families.q_mo, families.q_f16)) if len(p["threads"]) <= 3]
    pool += families.syncmix(ctx.tier, ctx.seed)
    pool = [p for p in pool if not (families.ops_of(p) & {"br", "yield", "await", "nwait", "park", "cvwait"})]
    pool = [p for p in pool if not families.q_mo(p) and not families.q_f16(p)]     # open findings F3/F4/F16: their shapes decide nothing here
    rng.shuffle(pool)
    base = pool[: (16 if ctx.tier == "quick" else 80)]
    U = core.run_loom(ctx, base, cfg_of=lambda p: {"iter_cap": 100000, "want_paths": True, "path_cap": 100000}, tag="unres")
    base = [(p, u) for p, u in zip(base, U) if u["end"] == "ok"]
    # ---------------- (a) regions
    items, meta = [], []
    for bi, (p, u) in enumerate(base):
        cands = []
        for t in range(1, len(p["threads"]) + 1):
            n = len(p["threads"][t - 1])
            for a in range(n):
                for b in range(a + 1, n + 1):
                    cands.append((t, a, b, False))
            for a in range(n + 1):
                cands.append((t, a, a, True))
        rng.shuffle(cands)
        for (t, a, b, sk) in cands[: (10 if ctx.tier == "quick" else 40)]:
            q = with_region(p, t, a, b, sk)
            items.append({"prog": dsl.normalize(q), "cfg": {"iter_cap": 100000, "trace_cap": 20, "want_paths": True, "path_cap": 600}})
            meta.append((bi, "region", (t, a, b, sk)))
        # skip_branch cannot be undone: called while exploration is already stopped, a later explore() must not restart it
        for t in range(1, len(p["threads"]) + 1):
            for variant, pre in (("skip", [dsl.I("skipb")]), ("stop-skip-explore", [dsl.I("stopx"), dsl.I("skipb"), dsl.I("explore")])):
                q = copy.deepcopy(p)
                q["threads"][t - 1][0:0] = pre
                q["name"] = (p.get("name") or "") + f"+{variant}[{t}:0]"
                items.append({"prog": dsl.normalize(q), "cfg": {"iter_cap": 100000, "trace_cap": 20, "want_paths": True, "path_cap": 600}})
                meta.append((bi, "skipeq", (t, variant)))
        # expect_explicit_explore with explore() at each position of main
        for a in range(0, len(p["threads"][0]) + 1, max(1, len(p["threads"][0]) // 3)):
            q = copy.deepcopy(p)
            q["threads"][0].insert(a, dsl.I("explore"))
            q["name"] = (p.get("name") or "") + f"+explicit[{a}]"
            items.append({"prog": dsl.normalize(q), "cfg": {"iter_cap": 100000, "trace_cap": 20, "want_paths": True, "path_cap": 600,
                                                            "expect_explicit_explore": True}})
            meta.append((bi, "explicit", a))
    R = loomrun.run_items(os.path.join(ctx.work, "regions"), items, jobs=ctx.jobs, tag="regions")
    nontriv = 0
    runs = []
    for j, ((bi, kind, info), r) in enumerate(zip(meta, R)):
        p, u = base[bi]
        q = items[j]["prog"]
        if r["end"] != "ok":
            ctx.violation("region-run-failed", q, {"end": r["end"], "msg": r["msg"][:80]}, {"kind": kind, "info": info})
            continue
        ku, kr = loomrun.loom_keys(u), loomrun.loom_keys(r)
        for w in sorted(kr - ku):
            ctx.violation("region-not-subset", q, {"outcome": w}, {"kind": kind, "info": info})
        if kind == "skipeq" and info[1] == "stop-skip-explore":
            r0 = R[j - 1]                                  # the plain skip_branch variant at the same place
            if r0["end"] == "ok" and (loomrun.loom_keys(r0) != kr or r0["iters"] != r["iters"]):
                ctx.violation("skip-branch-undone", q, {"iters_skip": r0["iters"], "iters_stop_skip_explore": r["iters"]}, {"info": info})
        if kind == "explicit" and info == 0 and kr != ku:
            ctx.violation("explicit-explore-at-start-differs", q, {"missing": sorted(ku - kr)[:3]}, {})
        if len(kr) < len(ku):
            nontriv += 1
        if len(r["hook_events"]) < 600:
            runs.append(({"item": j}, r["hook_events"]))
        # independent of the spec: no entry pushed with exploring = false ever holds Pending
        for (ph, it, pth) in r["hook_events"]:
            if ph == "end":
                for e in pathcheck.canon_path(pth)["br"]:
                    if e["k"] == "S" and not e["ex"] and "Pending" in e["th"]:
                        ctx.violation("pending-in-frozen-branch", q, {"iter": it}, {})
                        break
    core.validate_traces(ctx, [it["prog"] for it in items], R, label="trace_regions")
    rej = pathcheck.validate(ctx, runs)
    for m, info in rej:
        ctx.violation("path-rejected", items[m["item"]]["prog"], info, {})
    # ---------------- (b) limits
    lim_items, lim_meta, grid = [], [], set()
    # ... also for programs in which the limit strikes while the closure being spawned / a frame / a guard owns loom objects
    lcp = families.limit_crash_programs()
    LCU = core.run_loom(ctx, lcp, cfg_of=lambda p: {"iter_cap": 100000, "want_paths": True, "path_cap": 100000}, tag="unres_lim")
    lbase = base + [(p, u) for p, u in zip(lcp, LCU) if u["end"] == "ok"]
    for bi, (p, u) in enumerate(lbase):
        N = u["iters"]
        L = max(len(pathcheck.canon_path(pth)["br"]) for (ph, it, pth) in u["hook_events"] if ph == "end")
        for mb in (L - 1, L, L + 2):
            lim_items.append({"prog": p, "cfg": {"max_branches": mb, "iter_cap": 100000}})
            lim_meta.append((bi, "max_branches", mb, L))
        nthreads = len(p["threads"])
        for mt in (nthreads - 1, nthreads, 5):
            if mt >= 1:
                lim_items.append({"prog": p, "cfg": {"max_threads": mt, "iter_cap": 100000}})
                lim_meta.append((bi, "max_threads", mt, nthreads))
        if N <= 400:
            for m_ in sorted({1, 2, max(1, N - 1), N, N + 1, N + 3}):
                for c in (1, 2, 3, 7):
                    grid.add((N, m_, c, 0))
                    lim_items.append({"prog": p, "cfg": {"max_permutations": m_, "checkpoint_interval": c}})
                    lim_meta.append((bi, "max_permutations", (N, m_, c, 0), None))
            for c in (1, 2, 5):
                grid.add((N, 0, c, 1))
                lim_items.append({"prog": p, "cfg": {"max_duration_ms": 0, "checkpoint_interval": c}})
                lim_meta.append((bi, "max_duration", (N, 0, c, 1), None))
                # both limits set: each one still applies
                for m_ in (N + 3, 2):
                    grid.add((N, m_, c, 1))
                    lim_items.append({"prog": p, "cfg": {"max_permutations": m_, "max_duration_ms": 0, "checkpoint_interval": c}})
                    lim_meta.append((bi, "both_limits", (N, m_, c, 1), None))
    # the branch limit also holds for a run that was resumed from a checkpoint: stop before the first iteration that needs
    # the longest path, resume with max_branches one below that need
    ck = os.path.join(ctx.work, "ckpt_lim")
    os.makedirs(ck, exist_ok=True)
    ra_items, ra_meta = [], []
    # programs whose longest execution is not the first one (the number of branches depends on what was read)
    grow = [dsl.normalize(q) for q in [
        families.P("len-grows-if-flag-seen", families.SJ(2) + families.JJ(2), [dsl.ld("x", "sc"), dsl.br(1, 1, 3), dsl.ld("y"), dsl.ld("y"), dsl.ld("y")],
                   [dsl.st("x", 1, "sc")]),
        families.P("len-grows-if-trylock-wins", families.SJ(2) + families.JJ(2), [dsl.ld("x", "sc"), dsl.br(1, 1, 4), dsl.I("lock", "m"), dsl.ld("y"), dsl.ld("y"), dsl.I("unlock", "m")],
                   [dsl.st("y", 1), dsl.st("x", 1, "sc")]),
        families.P("len-grows-3", families.SJ(3) + families.JJ(3), [dsl.ld("x", "sc"), dsl.br(1, 2, 3), dsl.fadd("y", 1), dsl.fadd("y", 1), dsl.fadd("y", 1)],
                   [dsl.fadd("x", 1, "sc")], [dsl.fadd("x", 1, "sc")]),
    ]]
    # the program on which the thorough tier found F19 (a stored path of 9 entries comes back with capacity 16)
    grow.append(dsl.normalize(json.load(open(os.path.join(os.path.dirname(os.path.abspath(__file__)), "f19_witness.json")))))
    GU = core.run_loom(ctx, grow, cfg_of=lambda p: {"iter_cap": 100000, "want_paths": True, "path_cap": 100000}, tag="unres_grow")
    lbase2 = lbase + [(p, u) for p, u in zip(grow, GU) if u["end"] == "ok"]
    for bi, (p, u) in enumerate(lbase2):
        lens = [len(pathcheck.canon_path(pth)["br"]) for (ph, it, pth) in u["hook_events"] if ph == "end"]
        if not lens or len(lens) > 600:
            continue
        Lmax = max(lens)
        jstar = lens.index(Lmax) + 1
        for k in (range(2, jstar) if jstar <= 8 else sorted({2, jstar // 2, jstar - 1})):
            if 2 <= k < jstar:
                f = os.path.join(ck, f"b{bi}_k{k}.json")
                if os.path.exists(f):
                    os.remove(f)
                ra_items.append({"prog": p, "cfg": {"checkpoint_file": f, "checkpoint_interval": 1, "max_permutations": k}})
                ra_meta.append((bi, k, f, Lmax))
    if ra_items:
        loomrun.run_items(os.path.join(ctx.work, "limresA"), ra_items, jobs=ctx.jobs, tag="limresA")
        rb_items = [{"prog": it["prog"], "cfg": {"checkpoint_file": m[2], "checkpoint_interval": 100000, "max_branches": m[3] - 1}}
                    for it, m in zip(ra_items, ra_meta)]
        RB = loomrun.run_items(os.path.join(ctx.work, "limresB"), rb_items, jobs=ctx.jobs, tag="limresB")
        for (bi, k, f, Lmax), r in zip(ra_meta, RB):
            if r["end"] != "branches":
                ctx.violation("max-branches-not-reported", lbase2[bi][0], {"max_branches": Lmax - 1, "need": Lmax, "end": r["end"],
                                                                           "resumed_after": k}, {"msg": r["msg"][:200]})
        ctx.cov["resumed_limit_runs"] = len(rb_items)
    exp = checkloop_expected(ctx, grid) if grid else {}
    LR = loomrun.run_items(os.path.join(ctx.work, "limits"), lim_items, jobs=ctx.jobs, tag="limits")
    for (bi, kind, val, ref), r in zip(lim_meta, LR):
        p, u = lbase[bi]
        if kind == "max_branches":
            if val < ref:
                if r["end"] != "branches":
                    ctx.violation("max-branches-not-reported", p, {"max_branches": val, "need": ref, "end": r["end"]}, {"msg": r["msg"]})
            elif r["end"] != "ok" or loomrun.loom_keys(r) != loomrun.loom_keys(u) or r["iters"] != u["iters"]:
                ctx.violation("max-branches-changes-run", p, {"max_branches": val, "need": ref, "end": r["end"], "iters": r["iters"]}, {"msg": r["msg"]})
        elif kind == "max_threads":
            if val < ref:
                if r["end"] in ("ok", "hang") or r["end"].startswith("abort"):
                    ctx.violation("max-threads-not-reported", p, {"max_threads": val, "threads": ref, "end": r["end"]}, {"msg": r["msg"]})
                ctx.cov.setdefault("max_threads_messages", [])
                if r["msg"] not in ctx.cov["max_threads_messages"]:
                    ctx.cov["max_threads_messages"].append(r["msg"])
            elif r["end"] != "ok" or loomrun.loom_keys(r) != loomrun.loom_keys(u):
                ctx.violation("max-threads-changes-run", p, {"max_threads": val, "end": r["end"]}, {"msg": r["msg"]})
        else:
            if val not in exp:
                continue
            if r["end"] != "ok" or r["iters"] != exp[val][0]:
                ctx.violation("limit-arithmetic", p, {"kind": kind, "N_m_c_d": list(val), "expected_iterations": exp[val][0],
                                                      "ran": r["iters"], "end": r["end"]}, {"msg": r["msg"]})
    enginecheck.run_engine(ctx, ["ExploreMC_hash_b99.cfg", "ExploreMC_hash_b2.cfg"])
    # (c) "decisions outside the region are still fully explored": Dpor.tla with the control calls, whole program spaces
    dpor_space(ctx, [None], ("C01",), quick_sample=150, thorough_sample=1500,
               spaces=dpor_extra_spaces(["rg", "rg3", "rgcs", "skip"] + (["rgcs2"] if ctx.tier == "thorough" else [])))
    ctx.cov["programs"] += len(items) + len(lim_items)
    ctx.cov["evaluations"] += len(items) + len(lim_items)
    ctx.cov["distinct_nontrivial"] += nontriv
    ctx.cov["limit_runs"] = len(lim_items)
    ctx.cov["rule"] = "non-trivial = region/skip/explicit placements whose result set is strictly smaller than the unrestricted one"
    if items:
        ctx.cov["samples"].append({"program": dsl.pretty(items[0]["prog"]), "unrestricted_outcomes": len(loomrun.loom_keys(base[meta[0][0]][1])),
                                   "restricted_outcomes": len(loomrun.loom_keys(R[0]))})


def C12(ctx):
    import re, random, subprocess, shutil, loomrun
    ctx.assumptions += ["AtomicSeq.tla states the std-documented result of every operation in limb arithmetic; every replayed "
                        "sequence is also run on std::sync::atomic (spec = std validates the spec; a disagreement there is a tool error)",
                        "orderings do not change values; they are cycled so that every valid ordering is exercised",
                        "compare_exchange_weak never fails spuriously on this platform (x86-64) nor in loom"]
    work = os.path.join(ctx.work, "aseq")
    os.makedirs(work, exist_ok=True)
    shutil.copy(os.path.join(tlc.SPECS, "MCAtomicSeq.tla"), os.path.join(work, "MCAtomicSeq.tla"))
    cfg = "AtomicSeq_d2.cfg" if ctx.tier == "quick" else "AtomicSeq_d3.cfg"
    r = tlc.run_tlc(work, "MCAtomicSeq", os.path.join(tlc.SPECS, cfg), workers=ctx.tlc_workers, timeout=3000)
    if "Model checking completed. No error has been found." not in r["text"]:
        open(os.path.join(work, "tlc_error.log"), "w").write(re.sub(r'^<<"TR".*\n', "", r["text"], flags=re.M))
        raise tlc.ToolError(f"AtomicSeq failed (see {work}/tlc_error.log)")
    ctx.add_tlc(r, cfg)
    graph = {}
    ntr = 0
    for m in re.finditer(r'^<<"TR", "(.*)">>$', r["text"], re.M):
        t = json.loads(m.group(1).replace('\\"', '"'))
        if t["t"] == "bool" and t["op"] == "with_mut":
            continue            # loom's AtomicBool has no with_mut
        graph.setdefault((t["t"], tuple(t["v"])), []).append(t)
        ntr += 1
    rng = random.Random(ctx.seed * 6007 + 47)
    seqs = []
    for (ty, v), trs in sorted(graph.items()):
        for t in trs:
            seqs.append({"t": ty, "init": list(v), "ops": [t]})
    nwalk = 3000 if ctx.tier == "quick" else 60000
    starts = sorted(graph)
    for _ in range(nwalk):
        ty, v = rng.choice(starts)
        ops, cur = [], v
        for _ in range(8):
            trs = graph.get((ty, cur))
            if not trs:
                break
            t = rng.choice(trs)
            ops.append(t)
            cur = tuple(t["n"])
        if ops:
            seqs.append({"t": ty, "init": list(v), "ops": ops})
    inp, outp = os.path.join(work, "seqs.json"), os.path.join(work, "replay.json")
    json.dump(seqs, open(inp, "w"))
    p = subprocess.run([os.path.join(loomrun.HARNESS, "target/release/atomicseq"), inp, outp], capture_output=True, text=True)
    if p.returncode != 0:
        raise loomrun.ToolError("atomicseq failed: " + p.stderr[-800:])
    rep = json.load(open(outp))
    std_bad = [m for m in rep["mismatches"] if m["which"] == "std"]
    if std_bad:
        open(os.path.join(work, "spec_vs_std.json"), "w").write(json.dumps(std_bad[:20], indent=1))
        raise tlc.ToolError(f"AtomicSeq.tla disagrees with std::sync::atomic ({len(std_bad)} cases, see {work}/spec_vs_std.json): the spec is wrong")
    for m in rep["mismatches"]:
        ctx.violation("value-mismatch", None, {k: m.get(k) for k in ("type", "op", "f", "a", "b", "before", "expected", "got", "what")}, {"seq": m.get("seq")})
    ctx.cov["programs"] = len(seqs)
    ctx.cov["evaluations"] = rep["ops_checked"]
    ctx.cov["distinct_nontrivial"] = ntr
    ctx.cov["rule"] = "distinct transitions (type, value before, operation, operands) enumerated by TLC; all are replayed once and chained into random walks of length <= 8"
    ctx.cov["traces_validated_against_impl"] = rep["sequences"]
    ctx.cov["types"] = sorted({k[0] for k in graph})
    ctx.cov["ops"] = sorted({t["op"] for v in graph.values() for t in v})
    ctx.cov["samples"] += [seqs[len(seqs) // 3], seqs[-1]]


def C18(ctx):
    ctx.assumptions += ["reference: an await loop (load; test; yield_now/spin_loop) is one blocking read that returns any readable "
                        "non-zero message (LoomSem Await); at most one thread spins at a time",
                        "Never variants: the spec reports Deadlock (nobody can help), loom must end with the branch-limit panic"]
    progs, never = families.awaits(ctx.tier, ctx.seed)
    lower, upper = core.lower_upper(ctx, progs, families.has_sc_access, coverage=True)
    res = core.run_loom(ctx, progs, cfg_of=lambda p: {"iter_cap": iter_cap(ctx.tier), "trace_cap": 30})
    nontriv = 0
    for p, lo, up, r in zip(progs, lower, upper, res):
        if r["end"] == "branches":
            ctx.violation("branch-limit-hit", p, r["msg"][:60], {"iters": r["iters"]})
            continue
        if core.compare_sandwich(ctx, p, lo, up, r, want=("complete", "sound", "fails")):
            nontriv += 1
        core.sample(ctx, p, lo, up, r)
    core.validate_traces(ctx, progs, res)
    nl, nu = core.lower_upper(ctx, never, families.has_sc_access)
    nres = core.run_loom(ctx, never, tag="never")
    for p, lo, up, r in zip(never, nl, nu, nres):
        if "deadlock" not in lo.fails or "deadlock" not in up.fails:
            raise tlc.ToolError("a Never variant is not a deadlock in the spec: " + dsl.pretty(p))
        if r["end"] != "branches":
            ctx.violation("never-loop-not-reported", p, r["end"], {"msg": r["msg"], "iters": r["iters"]})
    ctx.cov["programs"] += len(progs) + len(never)
    ctx.cov["evaluations"] += len(progs) + len(never)
    ctx.cov["distinct_nontrivial"] += nontriv


def C17(ctx):
    ctx.assumptions += ["thread-local: lazily initialised once per thread, private (returns the thread's own access count), "
                        "dropped with the thread: init and drop counters (kept in std atomics by the harness) are part of every outcome",
                        "lazy static: one published instance per execution (racing initialisers may construct and discard a second one, "
                        "as documented in src/lazy_static.rs), released to every get, all constructed instances dropped by the end of "
                        "the iteration, re-initialised in the next one (every iteration validated from LoomSem's Init)"]
    ctx.notes.append("C17 states safety properties of statics; which interleavings of racing initialisers are explored is not "
                     "claimed (lazy_static access is no scheduling point), so only soundness, failure kinds and traces are checked")
    sync_family(ctx, families.statics(ctx.tier, ctx.seed), want=("sound", "fails", "trace"), waive=False)


def C20(ctx):
    ctx.assumptions += ["future layer of LoomSem: block_on = loop { poll; if Pending: Notify::wait } with one spurious return; "
                        "AtomicWaker = a slot holding the last registered waker, wake takes it; the hand-written future registers "
                        "and tests a flag in either order (the check-then-register order can lose a wake-up: deadlock reachable)",
                        "the observable result is flag value * 100 + number of polls"]
    sync_family(ctx, families.futures_family(ctx.tier, ctx.seed), waive=False)


PROBE = None


def probe_program():
    return dsl.normalize(families.wrap([[dsl.st("y", 1), dsl.st("x", 1, "rel")], [dsl.ld("x", "acq"), dsl.ld("y")]], ["x"], name="probe-MP"))


def pathcheck_len(path_json):
    import pathcheck
    return pathcheck.canon_path(path_json)["br"]


def C06(ctx):
    import loomrun
    ctx.assumptions += ["crash points: a `panic` instruction at every instruction index of every thread of the base programs, "
                        "also guarded by a previously loaded value; TLC (LoomSem, Panic action) says for each whether a failure is reachable",
                        "observation is process-level: the driver child must survive; exit by signal = abort, no progress = hang",
                        "'a later model run in the same process starts clean': a probe program runs in the same driver process after "
                        "the crashing ones and must reproduce its solo result (iterations, outcomes, path snapshots)"]
    progs = families.crash_points(ctx.tier, ctx.seed)
    lower, upper = core.lower_upper(ctx, progs, families.has_sc_access, coverage=True)
    probe = probe_program()
    solo = loomrun.run_items(os.path.join(ctx.work, "solo"), [{"prog": probe, "cfg": {"want_paths": True, "want_seq": True}}], jobs=1, tag="solo")[0]
    jobs = ctx.jobs
    n = ((len(progs) + jobs - 1) // jobs) * jobs
    pad = [probe] * (n - len(progs))
    items = [{"prog": p, "cfg": {"iter_cap": 200000}} for p in progs + pad] + \
            [{"prog": probe, "cfg": {"want_paths": True, "want_seq": True}} for _ in range(jobs)]
    R = loomrun.run_items(os.path.join(ctx.work, "crash"), items, jobs=jobs, tag="crash", per_prog_timeout=120)
    nontriv = 0
    for p, lo, up, r in zip(progs, lower, upper, R):
        if core.compare_sandwich(ctx, p, lo, up, r, want=("fails", "sound")):
            nontriv += 1
        if r["end"] == "panic" and not r["msg"].startswith("verif-panic"):
            ctx.violation("wrong-panic-message", p, r["msg"][:60], {})
        core.sample(ctx, p, lo, up, r)
    for k, r in enumerate(R[n:]):
        if r["end"] != solo["end"] or r["iters"] != solo["iters"] or r["outcomes"] != solo["outcomes"] or \
                r["hook_events"] != solo["hook_events"] or r["seq"] != solo["seq"]:
            ctx.violation("later-run-not-clean", probe, {"shard": k, "end": r["end"], "iters": r["iters"], "solo_iters": solo["iters"]}, {"msg": r["msg"]})
    # a limit violation is a failure like any other: it must unwind, whatever the spawning closure / the frames own
    lim = families.limit_crash_programs()
    LU = loomrun.run_items(os.path.join(ctx.work, "lim_u"), [{"prog": p, "cfg": {"want_paths": True}} for p in lim], jobs=jobs, tag="lim_u")
    litems, lmeta = [], []
    for p, u in zip(lim, LU):
        if u["end"] != "ok":
            ctx.violation("unexpected-panic", p, u["end"], {"msg": u["msg"]})
            continue
        L_ = max(len(pathcheck_len(pth)) for (ph, it, pth) in u["hook_events"] if ph == "end")
        n = len(p["threads"])
        for cfg in ([{"max_threads": k} for k in range(1, n)] + [{"max_branches": b} for b in (range(1, L_) if L_ <= 30 else sorted({1, 2, 3, max(1, L_ // 2), L_ - 1})) if 0 < b < L_]):
            litems.append({"prog": p, "cfg": cfg})
            lmeta.append((p, cfg))
    LR = loomrun.run_items(os.path.join(ctx.work, "lim"), litems, jobs=jobs, tag="lim") if litems else []
    for (p, cfg), r in zip(lmeta, LR):
        if r["end"] in ("ok", "hang") or r["end"].startswith("abort"):
            ctx.violation("limit-not-reported", p, {"cfg": cfg, "end": r["end"]}, {"msg": r["msg"][:200]})
        elif "max_branches" in cfg and r["end"] != "branches":
            ctx.violation("limit-not-reported", p, {"cfg": cfg, "end": r["end"]}, {"msg": r["msg"][:200]})
    ctx.cov["limit_crash_runs"] = len(litems)
    ends = {}
    for r in R[:len(progs)]:
        ends[r["end"]] = ends.get(r["end"], 0) + 1
    ctx.cov["loom_ends"] = ends
    ctx.cov["probe_runs_after_crashes"] = jobs
    ctx.cov["programs"] += len(progs)
    ctx.cov["evaluations"] += len(progs)
    ctx.cov["distinct_nontrivial"] += nontriv


def C16(ctx):
    import loomrun, pathcheck, copy
    ctx.assumptions += ["every iteration of every run is validated by LoomSemTrace from the spec's Init (thread ids from main, fresh "
                        "objects, empty clocks): stale state would show up as an unexplained event or value",
                        "the sequence of (path snapshot, outcome) of a program must be identical alone in a fresh process, after other "
                        "(also failing) models in the same process, and alongside another model on a second OS thread",
                        "cross-OS-thread interference is sampled by repeated concurrent runs, not enumerated"]
    A, B = families.iso_base()
    cfgA = {"want_paths": True, "want_seq": True, "want_sched": True, "trace_cap": 40, "iter_cap": 50000}
    cfgB = {"iter_cap": 50000}
    ref = loomrun.run_items(os.path.join(ctx.work, "solo"), [{"prog": a, "cfg": cfgA} for a in A], jobs=len(A), tag="solo")   # one process each
    bad = [(a, r) for a, r in zip(A, ref) if r["end"] != "ok"]
    for a, r in bad:
        # these programs complete on the unchanged tree: whatever stops one of them is a finding about the code under test
        ctx.violation("unexpected-panic", a, r["end"], {"msg": r["msg"][:200], "iters": r["iters"], "note": "isolation base program does not complete"})
    if bad:
        keep = [k for k, r in enumerate(ref) if r["end"] == "ok"]
        A = [A[k] for k in keep]
        ref = [ref[k] for k in keep]
    # the exploration flags are part of the initial state too: with expect_explicit_explore every iteration starts with
    # exploration off, not only the first one (explore() asserts that it is off)
    xp = []
    for a in A[:3]:
        q = copy.deepcopy(a)
        q["threads"][0].insert(0, dsl.I("explore"))
        q["name"] = (a.get("name") or "") + "+explicit-explore"
        xp.append(dsl.normalize(q))
    XR = loomrun.run_items(os.path.join(ctx.work, "explicit"), [{"prog": q, "cfg": dict(cfgA, expect_explicit_explore=True)} for q in xp], jobs=len(xp), tag="explicit")
    for q, a, r0, r in zip(xp, A, ref, XR):
        if r["end"] != "ok" or r["iters"] != r0["iters"] or loomrun.loom_keys(r) != loomrun.loom_keys(r0):
            ctx.violation("iteration-start-state", q, {"end": r["end"], "iters": r["iters"], "iters_default_config": r0["iters"]}, {"msg": r["msg"][:200]})
        core.prefix_determinism(ctx, q, r, label="explicit")
    core.validate_traces(ctx, A, ref, label="trace_solo")
    for a, r in zip(A, ref):
        core.prefix_determinism(ctx, a, r, label="solo")
    # no clock / view of an earlier iteration is visible in a later one: over all iterations the result set is the
    # reference set (a leaked view over-synchronises later iterations and loses outcomes)
    lowerA, upperA = core.lower_upper(ctx, A, families.has_sc_access)
    for a, lo, up, r in zip(A, lowerA, upperA, ref):
        wv = ("sound", "fails") if "yield" in families.ops_of(a) or any(i["op"] == "lzget" for th in a["threads"] for i in th) else ("complete", "sound", "fails")
        core.compare_sandwich(ctx, a, lo, up, r, want=wv)

    def same(x, y):
        return x["end"] == y["end"] and x["iters"] == y["iters"] and x["seq"] == y["seq"] and x["seq_keys"] == y["seq_keys"] \
            and x["hook_events"] == y["hook_events"] and x["outcomes"] == y["outcomes"] \
            and x.get("sched_events") == y.get("sched_events")
    # B then A in one process (also: many models before A)
    items, meta = [], []
    for bi, b in enumerate(B):
        for ai, a in enumerate(A):
            items += [{"prog": b, "cfg": cfgB}, {"prog": a, "cfg": cfgA}]
            meta.append((bi, ai))
    R = loomrun.run_items(os.path.join(ctx.work, "seq"), items, jobs=ctx.jobs, tag="seq", extra_args=["--group", "2"])
    cmp_runs = 0
    for k, (bi, ai) in enumerate(meta):
        rb, ra = R[2 * k], R[2 * k + 1]
        cmp_runs += 1
        if rb["end"].startswith("abort") or rb["end"] == "hang":
            ctx.violation("abort", B[bi], rb["end"], {"msg": rb["msg"]})
        if not same(ra, ref[ai]):
            ctx.violation("depends-on-earlier-model", A[ai], {"after": B[bi].get("name"), "end": ra["end"], "iters": ra["iters"],
                                                              "solo_iters": ref[ai]["iters"]}, {"msg": ra["msg"]})
    core.validate_traces(ctx, [it["prog"] for it in items], R, label="trace_seq")
    # A alongside B (and A alongside A) on two OS threads
    reps = 2 if ctx.tier == "quick" else 20
    citems, cmeta = [], []
    for rep in range(reps):
        for ai, a in enumerate(A):
            for other in ([A[ai]] + [B[(ai + rep) % len(B)], A[(ai + 1 + rep) % len(A)]]):
                citems += [{"prog": a, "cfg": cfgA}, {"prog": other, "cfg": cfgA if other in A else cfgB}]
                cmeta.append((ai, other.get("name")))
    CR = loomrun.run_items(os.path.join(ctx.work, "conc"), citems, jobs=ctx.jobs, tag="conc", extra_args=["--pairs"])
    for k, (ai, oname) in enumerate(cmeta):
        ra = CR[2 * k]
        cmp_runs += 1
        if not same(ra, ref[ai]):
            ctx.violation("depends-on-concurrent-model", A[ai], {"alongside": oname, "end": ra["end"], "iters": ra["iters"],
                                                                 "solo_iters": ref[ai]["iters"]}, {"msg": ra["msg"]})
        if oname == A[ai].get("name") and not same(CR[2 * k + 1], ref[ai]):
            ctx.violation("depends-on-concurrent-model", A[ai], {"alongside": "itself (second copy)", "end": CR[2 * k + 1]["end"]}, {})
    # the configuration of `loom::model` is read from the environment at EVERY call: a model that ran earlier under
    # LOOM_MAX_PREEMPTIONS / LOOM_MAX_BRANCHES must not decide the limits of a later one in the same process
    eitems, emeta = [], []
    for ai, a in enumerate(A):
        for first in ({"LOOM_MAX_PREEMPTIONS": "1"}, {"LOOM_MAX_BRANCHES": "3"}, {"LOOM_MAX_PERMUTATIONS": "2", "LOOM_CHECKPOINT_INTERVAL": "1"}):
            unset = {k: "" for k in first}
            eitems += [{"prog": a, "cfg": dict(cfgB, via_model=True, env=first)}, {"prog": a, "cfg": dict(cfgA, via_model=True, env=unset)}]
            emeta.append((ai, first))
    ER = loomrun.run_items(os.path.join(ctx.work, "env"), eitems, jobs=ctx.jobs, tag="env", extra_args=["--group", "2"])
    for k, (ai, first) in enumerate(emeta):
        r1, r2 = ER[2 * k], ER[2 * k + 1]
        cmp_runs += 1
        if not same(r2, ref[ai]):
            ctx.violation("depends-on-earlier-model", A[ai], {"after": "the same model under " + json.dumps(first), "end": r2["end"], "iters": r2["iters"],
                                                              "solo_iters": ref[ai]["iters"]}, {"msg": r2["msg"]})
        # and the first run did obey its own environment (otherwise the comparison above decides nothing)
        if "LOOM_MAX_PERMUTATIONS" in first and ref[ai]["iters"] > 2 and r1["iters"] > 2:
            ctx.violation("environment-ignored", A[ai], {"env": first, "iters": r1["iters"]}, {})
        if "LOOM_MAX_BRANCHES" in first and r1["end"] != "branches":
            ctx.violation("environment-ignored", A[ai], {"env": first, "end": r1["end"]}, {"msg": r1["msg"]})
    ctx.cov["programs"] += len(A) + len(B)
    ctx.cov["evaluations"] += cmp_runs
    ctx.cov["distinct_nontrivial"] += cmp_runs
    ctx.cov["rule"] = "each comparison of a base program's full (path, outcome) sequence against its fresh-process run, after / alongside a different model"
    ctx.cov["samples"].append({"program": dsl.pretty(A[0]), "solo_iterations": ref[0]["iters"], "compared_after": [b.get("name") for b in B]})


CHECKS = {"C16": C16, "C06": C06, "C20": C20, "C17": C17, "C18": C18, "C12": C12, "C19": C19, "C15": C15, "C13": C13, "C14": C14, "C10": C10, "C11": C11, "C01": C01, "C04": C04, "C05": C05, "C07": C07, "C08": C08, "C09": C09, "C02": C02, "C03": C03}
