"""One function per property.  Each builds its family, runs TLC and loom, compares."""
import json, os
import dsl, tlc, loomrun, core, families


def iter_cap(tier):
    return 400_000 if tier == "quick" else 4_000_000


def memory_model(ctx, want, progs=None, avoid=()):
    """C02 (complete) / C03 (sound) share the litmus family and the runs."""
    progs = progs if progs is not None else families.litmus(ctx.tier, ctx.seed, avoid=avoid)
    lower, upper = core.lower_upper(ctx, progs, families.has_sc_access, coverage=True)
    tcap = 0 if "trace" not in want else (30 if ctx.tier == "quick" else 400)
    res = core.run_loom(ctx, progs, cfg_of=lambda p: {"iter_cap": iter_cap(ctx.tier), "trace_cap": tcap})
    nontriv = 0
    for p, lo, up, r in zip(progs, lower, upper, res):
        if core.compare_sandwich(ctx, p, lo, up, r, want=want):
            nontriv += 1
        core.sample(ctx, p, lo, up, r)
    if "trace" in want:
        core.validate_traces(ctx, progs, res)
    ctx.cov["programs"] += len(progs)
    ctx.cov["evaluations"] += len(progs)
    ctx.cov["distinct_nontrivial"] += nontriv
    return progs, lower, upper, res


def C02(ctx):
    ctx.assumptions += ["Lower(P) = LoomSem view machine with RC11 same-thread release sequences; programs with "
                        "SeqCst accesses use the interleaving outcomes (always RC11-consistent) as lower bound",
                        "<= 5 stores per location; no load buffering (po u rf acyclic is built into the machine)"]
    memory_model(ctx, ("complete",))


def C03(ctx):
    ctx.assumptions += ["Upper(P) = LoomSem view machine with the weakest documented synchronisation: SeqCst "
                        "accesses as acquire/release, no same-thread release sequences (C++20)",
                        "every store writes a distinct value per location, so an outcome fixes reads-from"]
    ctx.notes.append("random tail quarantined for open findings F3/F4 (families.q_mo); the enumerated core keeps "
                     "the multi-writer shapes and re-confirms the listed witnesses")
    memory_model(ctx, ("sound", "trace"), avoid=(families.q_mo,))


def sync_family(ctx, progs, want=("complete", "sound", "fails", "trace"), tcap=None, waive=True):
    """generic: Lower(P) <= loom(P) <= Upper(P), failure kinds, and trace validation of every recorded iteration"""
    lower, upper = core.lower_upper(ctx, progs, families.has_sc_access, coverage=True)
    tcap = tcap if tcap is not None else (30 if ctx.tier == "quick" else 300)
    res = core.run_loom(ctx, progs, cfg_of=lambda p: {"iter_cap": iter_cap(ctx.tier), "trace_cap": tcap if "trace" in want else 0})
    nontriv = 0
    for p, lo, up, r in zip(progs, lower, upper, res):
        wv = families.waived(p) if waive else {}
        for k, f in wv.items():
            if k in want:
                ctx.cov["waived"] = ctx.cov.get("waived", {})
                ctx.cov["waived"][f] = ctx.cov["waived"].get(f, 0) + 1
        if core.compare_sandwich(ctx, p, lo, up, r, want=tuple(w for w in want if w not in wv)):
            nontriv += 1
        core.sample(ctx, p, lo, up, r)
    if "trace" in want:
        core.validate_traces(ctx, progs, res)
    ctx.cov["programs"] += len(progs)
    ctx.cov["evaluations"] += len(progs)
    ctx.cov["distinct_nontrivial"] += nontriv
    return lower, upper, res


def C01(ctx):
    ctx.assumptions += ["Spec_interleaved(P) (plain interleaving, no reduction) is the lower bound for programs with "
                        "SeqCst atomics; Upper(P) treats SeqCst accesses as acquire/release"]
    progs = families.syncmix(ctx.tier, ctx.seed)
    sync_family(ctx, progs)


CHECKS = {"C01": C01, "C02": C02, "C03": C03}
