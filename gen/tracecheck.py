"""Trace validation: recorded loom iterations are replayed through LoomSemTrace.tla by TLC."""
import json, os, shutil, re
from concurrent.futures import ThreadPoolExecutor
import tlc, dsl

SPECS = tlc.SPECS


def iteration_events(pidx, trace, end, pb=-1):
    ev = [{"k": "reset", "p": pidx, "pb": pb}]
    for e in trace:
        t, pc, res = e[0], e[1], e[2]
        ev.append({"k": "op", "t": t, "pc": pc, "res": -1 if res is None else res, "spur": e[3] if len(e) > 3 else -1})
    ev.append({"k": "end", "e": end})
    return ev


def end_event_kind(end):
    if end in ("ok", "deadlock", "race", "panic", "usage") or end.startswith("leak:"):
        return end
    return "cut"


def _run_chunk(workdir, name, iters, cfgname, module="MCTrace"):
    """iters: list of (meta, events). Returns list of (meta, reject_info) for rejected iterations."""
    rejected = []
    todo = list(iters)
    rounds = 0
    states = 0
    while todo:
        rounds += 1
        path = os.path.join(workdir, f"{name}.ndjson")
        offsets = []
        with open(path, "w") as f:
            n = 0
            for meta, evs in todo:
                offsets.append(n)
                for e in evs:
                    f.write(json.dumps(e) + "\n")
                n += len(evs)
        r = tlc.run_tlc(workdir, module, os.path.join(SPECS, cfgname), workers=1, timeout=1800,
                        props=["-Dtlc2.tool.queue.IStateQueue=StateDeque"], env={"TRACE": path}, xmx="2g", xss="512m", tag="_" + name)
        states += r["stats"]["distinct"]
        text = r["text"]
        m = re.search(r'<<"REJECT", (\d+), "(.*)">>', text)
        if m is None:
            if "Model checking completed. No error has been found." in text:
                break
            with open(os.path.join(workdir, f"{name}.tlc_error.log"), "w") as f:
                f.write(text)
            raise tlc.ToolError(f"trace validation failed to run (see {workdir}/{name}.tlc_error.log)")
        pos = int(m.group(1))            # 1-based index of the first event that could not be matched
        # find the iteration containing event pos
        k = max(i for i, off in enumerate(offsets) if off < pos)
        meta, evs = todo[k]
        rejected.append((meta, {"event_index_in_iteration": pos - offsets[k], "event": evs[pos - offsets[k] - 1],
                                "matched_prefix": evs[:pos - offsets[k] - 1]}))
        todo = todo[k + 1:]
        if rounds > 200:
            raise tlc.ToolError("too many rejected traces in one chunk")
    return rejected, states


def validate(ctx, progs, results, cfgname="MCTrace_upper.cfg", label="trace", skip=lambda i: False, chunk_events=6000,
             include_fail=True, pb_of=lambda i: -1):
    """Validate all recorded traces of `results` (driver output, aligned with progs).
    Returns list of (prog index, meta, reject_info)."""
    work = os.path.join(ctx.work, label)
    os.makedirs(work, exist_ok=True)
    with open(os.path.join(work, "MCProgsMod.tla"), "w") as f:
        f.write(dsl.render_progs_module("MCProgsMod", progs))
    shutil.copy(os.path.join(SPECS, "MCTrace.tla"), os.path.join(work, "MCTrace.tla"))
    iters = []
    for i, (p, r) in enumerate(zip(progs, results)):
        if skip(i):
            continue
        for k, tr in enumerate(r.get("traces", [])):
            iters.append(({"prog": i, "trace": k, "end": "ok"}, iteration_events(i + 1, tr, "ok", pb_of(i))))
        if include_fail and r["end"] != "ok" and (r.get("fail_trace") or r["end"] in ("deadlock", "race", "panic", "usage")):
            e = end_event_kind(r["end"])
            iters.append(({"prog": i, "trace": "fail", "end": e}, iteration_events(i + 1, r.get("fail_trace", []), e, pb_of(i))))
    if not iters:
        return []
    chunks, cur, n = [], [], 0
    for it in iters:
        cur.append(it)
        n += len(it[1])
        if n >= chunk_events:
            chunks.append(cur)
            cur, n = [], 0
    if cur:
        chunks.append(cur)
    rejected = []
    with ThreadPoolExecutor(max(1, min(ctx.jobs, len(chunks)))) as ex:
        futs = [ex.submit(_run_chunk, work, f"chunk{k}", ch, cfgname) for k, ch in enumerate(chunks)]
        for f in futs:
            rej, states = f.result()
            rejected += rej
            ctx.cov["states"] += states
            ctx.cov["transitions"] += states
    ctx.cov["traces_validated_against_impl"] += len(iters)
    ctx.cov["trace_events"] = ctx.cov.get("trace_events", 0) + sum(len(e) for _, e in iters)
    return [(m["prog"], m, info) for m, info in rejected]
