"""ad-hoc: run DSL programs on real loom under several preemption bounds and print the outcome sets
usage: probe.py  (edit PROGS)  -- kept as a developer tool"""
import json, sys, os
sys.path.insert(0, os.path.dirname(__file__))
import dsl, families, loomrun
from dsl import *
from families import P, L, wrap

def run(progs, bounds=(None,), work="/verif/work/probe"):
    items = []
    for p in progs:
        for b in bounds:
            cfg = {"trace_cap": 0}
            if b is not None:
                cfg["preemption_bound"] = b
            items.append({"prog": p, "cfg": cfg})
    res = loomrun.run_items(work, items, jobs=8, per_prog_timeout=120, tag="probe")
    k = 0
    for p in progs:
        print(dsl.pretty(p) if hasattr(dsl, "pretty") else p)
        for b in bounds:
            r = res[k]; k += 1
            print("  bound", b, "end", r["end"], "iters", r.get("iters"), sorted(loomrun.loom_keys(r)))

if __name__ == "__main__":
    progs = [dsl.normalize(P("yield-then-store", [spawn(2), spawn(3), join(2), join(3)],
                               [ld("x", "sc"), ld("y", "sc")], [I("yield"), st("x", 32, "sc")]))]
    progs.append(dsl.normalize(P("yield-then-store-nojoin", [spawn(2), spawn(3)],
                               [ld("x", "sc"), ld("y", "sc")], [I("yield"), st("x", 32, "sc")])))
    run(progs, bounds=(None, 0, 1, 2, 3))


def scheds(p, bound):
    import pathcheck
    cfg = {"trace_cap": 0, "want_paths": True}
    if bound is not None:
        cfg["preemption_bound"] = bound
    res = loomrun.run_items("/verif/work/probe", [{"prog": p, "cfg": cfg}], jobs=1, tag="probe")[0]
    out = []
    for (ph, it, path) in res["hook_events"]:
        if ph == "end":
            c = pathcheck.canon_path(path)
            out.append([(e["th"].index("Active") + 1 if "Active" in e["th"] else 0) if e["k"] == "S" else e["k"] for e in c["br"]])
    return out
