"""Running TLC on generated batches and parsing what it printed."""
import json, os, re, subprocess, shutil, time

JAR = "/opt/veriftools/tla/tla2tools.jar:/opt/veriftools/tla/CommunityModules-deps.jar"
SPECS = os.path.join(os.path.dirname(os.path.dirname(os.path.abspath(__file__))), "specs")


class ToolError(Exception):
    pass


def java_cmd(extra_props=(), xmx="6g", xss=None):
    cmd = ["java", "-XX:+UseParallelGC", f"-Xmx{xmx}", f"-DTLA-Library={SPECS}"]
    if xss:
        cmd.append(f"-Xss{xss}")
    cmd += list(extra_props)
    cmd += ["-cp", JAR, "tlc2.TLC"]
    return cmd


def parse_stats(text):
    st = {"generated": 0, "distinct": 0, "depth": 0}
    m = re.search(r"(\d+) states generated, (\d+) distinct states found", text)
    if m:
        st["generated"] = int(m.group(1))
        st["distinct"] = int(m.group(2))
    m = re.search(r"depth of the complete state graph search is (\d+)", text)
    if m:
        st["depth"] = int(m.group(1))
    return st


_DEFS = {}


def _def_ranges(module):
    """[(first line, last line, operator name)] of the top-level definitions of a spec module"""
    if module in _DEFS:
        return _DEFS[module]
    path = os.path.join(SPECS, module + ".tla")
    out = []
    try:
        lines = open(path).read().splitlines()
    except OSError:
        _DEFS[module] = out
        return out
    starts = []
    for n, l in enumerate(lines, 1):
        m = re.match(r"^([A-Z]\w*)(\([^)]*\))?\s*==", l)
        if m:
            starts.append((n, m.group(1)))
    for k, (n, name) in enumerate(starts):
        end = starts[k + 1][0] - 1 if k + 1 < len(starts) else len(lines)
        out.append((n, end, name))
    _DEFS[module] = out
    return out


def parse_coverage(text, modules=("LoomSem", "LoomSemTrace", "Explore", "AtomicSeq")):
    """per-operator evaluation counts from `-coverage` output: the largest count reported for any
    expression inside the operator's definition"""
    cov = {}
    for m in re.finditer(r"^\s*\|*line (\d+), col \d+ to line \d+, col \d+ of module (\w+): (\d+)", text, re.M):
        line, mod, cnt = int(m.group(1)), m.group(2), int(m.group(3))
        if mod not in modules:
            continue
        for (a, b, name) in _def_ranges(mod):
            if a <= line <= b:
                if cnt > cov.get(name, 0):
                    cov[name] = cnt
                break
    return cov


def parse_out_lines(text, tag="OUT"):
    res = []
    pat = re.compile(r'^<<"' + tag + r'", "(.*)">>$', re.M)
    for m in pat.finditer(text):
        s = m.group(1).replace('\\"', '"').replace("\\\\", "\\")
        res.append(json.loads(s))
    return res


def run_tlc(workdir, module, cfg, workers=8, timeout=900, extra_args=(), props=(), env=None, xmx="6g", xss=None,
            coverage=False, tag=""):
    """Run TLC in workdir on module.tla (must exist there or in SPECS) with cfg (path)."""
    os.makedirs(workdir, exist_ok=True)
    meta = os.path.join(workdir, "states_" + module + "_" + os.path.basename(cfg).replace(".cfg", "") + tag)
    shutil.rmtree(meta, ignore_errors=True)
    cmd = java_cmd(props, xmx=xmx, xss=xss) + ["-workers", str(workers), "-noGenerateSpecTE", "-metadir", meta,
                                                "-cleanup", "-config", cfg]
    if coverage:
        cmd += ["-coverage", "1"]
    cmd += list(extra_args) + [module + ".tla"]
    t0 = time.time()
    e = dict(os.environ)
    if env:
        e.update(env)
    try:
        p = subprocess.run(cmd, cwd=workdir, capture_output=True, text=True, timeout=timeout, env=e)
    except subprocess.TimeoutExpired as ex:
        raise ToolError(f"TLC timeout after {timeout}s: {' '.join(cmd)}") from ex
    finally:
        shutil.rmtree(meta, ignore_errors=True)
    text = p.stdout + p.stderr
    return {"rc": p.returncode, "text": text, "wall": time.time() - t0, "stats": parse_stats(text), "cmd": " ".join(cmd)}


def sem_outcomes(workdir, progs, cfgname, module="MCSem", workers=8, timeout=900, coverage=False):
    """Run LoomSem on a batch; returns (outs: list of set of outcome-json per program, info)."""
    from dsl import render_progs_module
    os.makedirs(workdir, exist_ok=True)
    with open(os.path.join(workdir, "MCProgsMod.tla"), "w") as f:
        f.write(render_progs_module("MCProgsMod", progs))
    shutil.copy(os.path.join(SPECS, module + ".tla"), os.path.join(workdir, module + ".tla"))
    r = run_tlc(workdir, module, os.path.join(SPECS, cfgname), workers=workers, timeout=timeout, coverage=coverage)
    if "Model checking completed. No error has been found." not in r["text"]:
        with open(os.path.join(workdir, "tlc_error.log"), "w") as f:
            f.write(r["text"])
        raise ToolError(f"TLC failed on {cfgname} (see {workdir}/tlc_error.log)")
    outs = [set() for _ in progs]
    for o in parse_out_lines(r["text"]):
        outs[o["p"] - 1].add(canon_outcome(o))
    r["coverage"] = parse_coverage(r["text"]) if coverage else {}
    return outs, r


def canon_outcome(o):
    """(end, key) for a spec outcome; key = canonical json of {regs, drops} ('' for race/deadlock/panic)"""
    end = o["end"]
    if end in ("race", "deadlock", "panic", "usage"):
        return (end, "")
    return (end, canon_key(o["regs"], o.get("drops"), o.get("stat")))


def _vals(d):
    if isinstance(d, dict):
        return [d[k] for k in sorted(d)]
    return list(d or [])


def canon_key(regs, drops, stat=None, extra=None):
    """stat: spec side [tl: key -> inits, lz: static -> instances]; impl side {"tl": [[init, drop]..], "lz": [[init, drop]..]}"""
    k = {"regs": [list(r) for r in regs], "drops": _vals(drops)}
    if stat:
        tl, lz = _vals(stat.get("tl")), _vals(stat.get("lz"))
        if tl or lz:
            # the spec says every initialised value is dropped by the end of the iteration: [n] stands for [n, n]
            k["stat"] = [[x, x] if not isinstance(x, list) else x for x in tl] + [[x, x] if not isinstance(x, list) else x for x in lz]
    if extra:
        k.update(extra)
    return json.dumps(k, sort_keys=True)
