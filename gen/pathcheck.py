"""Validation of recorded rt::Path snapshots against Explore.tla (ExploreTrace.tla)."""
import json, os, re, shutil
from concurrent.futures import ThreadPoolExecutor
import tlc

SPECS = tlc.SPECS


def canon_path(js):
    """serde_json of rt::Path -> the record shape of Explore.tla"""
    d = json.loads(js) if isinstance(js, str) else js
    br = []
    for e in d["branches"]["entries"]:
        if "Schedule" in e:
            s = e["Schedule"]
            br.append({"k": "S", "th": list(s["threads"]), "pre": s["preemptions"],
                       "ia": 0 if s.get("initial_active") is None else s["initial_active"] + 1,
                       "prev": 0 if s.get("prev") is None else s["prev"]["index"] + 1, "ex": s["exploring"]})
        elif "Load" in e:
            s = e["Load"]
            br.append({"k": "L", "vals": list(s["values"][: s["len"]]), "pos": s["pos"], "ex": s["exploring"]})
        else:
            s = e["Spurious"]
            br.append({"k": "P", "spur": s["spur"], "ex": s["exploring"]})
    return {"br": br, "pos": d["pos"], "exploring": d["exploring"], "skipping": d["skipping"],
            "eos": d["exploring_on_start"], "bound": -1 if d["preemption_bound"] is None else d["preemption_bound"]}


def decisions(path):
    out = []
    for e in path["br"]:
        if e["k"] == "S":
            out.append(("S", e["th"].index("Active") if "Active" in e["th"] else -1))
        elif e["k"] == "L":
            out.append(("L", e["pos"]))
        else:
            out.append(("P", int(e["spur"])))
    return tuple(out)


def run_events(hook_events):
    """hook events of one Builder::check call -> ExploreTrace events"""
    evs = []
    last = None
    for (phase, it, path) in hook_events:
        if phase == "done":
            evs.append({"k": "done", "iter": it})
        else:
            evs.append({"k": phase, "iter": it, "path": canon_path(path)})
        last = phase
    if last != "done":
        evs.append({"k": "cut"})
    return evs


def validate(ctx, runs, label="paths", chunk_events=3000):
    """runs: list of (meta, hook_events).  Returns list of (meta, reject info)."""
    work = os.path.join(ctx.work, label)
    os.makedirs(work, exist_ok=True)
    shutil.copy(os.path.join(SPECS, "MCExploreTrace.tla"), os.path.join(work, "MCExploreTrace.tla"))
    items = [(m, run_events(h)) for m, h in runs if h]
    if not items:
        return []
    chunks, cur, n = [], [], 0
    for it in items:
        cur.append(it)
        n += len(it[1])
        if n >= chunk_events:
            chunks.append(cur)
            cur, n = [], 0
    if cur:
        chunks.append(cur)

    def run_chunk(k, ch):
        rejected, states = [], 0
        todo = list(ch)
        while todo:
            path = os.path.join(work, f"chunk{k}.ndjson")
            offs = []
            with open(path, "w") as f:
                n = 0
                for meta, evs in todo:
                    offs.append(n)
                    for e in evs:
                        f.write(json.dumps(e) + "\n")
                    n += len(evs)
            r = tlc.run_tlc(work, "MCExploreTrace", os.path.join(SPECS, "MCExploreTrace.cfg"), workers=1, timeout=1800,
                            props=["-Dtlc2.tool.queue.IStateQueue=StateDeque"], env={"TRACE": path}, xmx="3g", xss="512m",
                            tag=f"_c{k}")
            states += r["stats"]["distinct"]
            m = re.search(r'<<"REJECT", (\d+), "(\w+)">>', r["text"])
            if m is None:
                if "Model checking completed. No error has been found." in r["text"]:
                    break
                with open(os.path.join(work, f"chunk{k}.tlc_error.log"), "w") as f:
                    f.write(r["text"])
                raise tlc.ToolError(f"path validation failed to run (see {work}/chunk{k}.tlc_error.log)")
            pos = int(m.group(1))
            j = max(i for i, off in enumerate(offs) if off < pos)
            meta, evs = todo[j]
            rejected.append((meta, {"event_index_in_run": pos - offs[j], "event_kind": m.group(2),
                                    "iter": evs[pos - offs[j] - 1].get("iter")}))
            todo = todo[j + 1:]
        return rejected, states

    out = []
    with ThreadPoolExecutor(max(1, min(ctx.jobs, len(chunks)))) as ex:
        for rej, states in ex.map(lambda kc: run_chunk(*kc), list(enumerate(chunks))):
            out += rej
            ctx.cov["states"] += states
            ctx.cov["transitions"] += states
    ctx.cov["path_events_validated"] = ctx.cov.get("path_events_validated", 0) + sum(len(e) for _, e in items)
    ctx.cov["traces_validated_against_impl"] += len(items)
    return out
