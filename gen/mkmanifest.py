#!/usr/bin/env python3
"""Writes /verif/MANIFEST.json from the table below (kept in one place so it stays valid)."""
import json, subprocess

CLAIMED = {
    "C02": dict(
        technique="TLA+ view-machine spec (LoomSem.tla) enumerated by TLC per litmus program; Lower(P) subset-of loom(P) set comparison against the real loom::model",
        text="TLC enumerates every terminal state of the reference view machine (strongest documented synchronisation) for each program of the litmus family (enumerated shapes x orderings + seeded random tail); every outcome must be produced by some iteration of the real Builder::check on the same program. Exhaustive per program within the family bounds (<= 4 modelled threads besides main, <= 7 ops, <= 3 locations).",
        note="Trusted: LoomSem's view machine as the meaning of RC11 without load buffering (cross-checked against an axiomatic RC11 spec), the DSL interpreter, TLC. Programs with SeqCst accesses use the interleaving outcome set as lower bound.",
        ref="DESIGN.md §6 C02"),
    "C03": dict(
        technique="TLA+ view-machine spec enumerated by TLC; loom(P) subset-of Upper(P) on every iteration's outcome (outcome fixes reads-from: distinct values)",
        text="Every outcome of every iteration the real loom executes on each litmus program must be an outcome of the reference view machine under the weakest documented synchronisation (SeqCst accesses as acq/rel, no same-thread release sequences).",
        note="Trusted: LoomSem, interpreter, TLC. Open findings F3/F4 (known_findings.json) are re-confirmed on the enumerated core; the random tail does not draw their trigger (families.q_mo).",
        ref="DESIGN.md §6 C03"),
}

SANDWICH = "TLC enumerates every terminal state of LoomSem (reference semantics, no reduction) for each program of the family under the strongest (Lower) and weakest (Upper) documented synchronisation; the real loom::model on the same program must satisfy Lower(P) subset-of loom(P) subset-of Upper(P), report a failure kind iff the spec reaches it, and every recorded iteration must be accepted by LoomSemTrace (enabling conditions evaluated at each event)."
TRUST = "Trusted: LoomSem as the documented semantics (std + loom docs, DESIGN.md App. B), the DSL interpreter's logging discipline, TLC. Open findings are listed in known_findings.json; generated programs avoid their triggers (quarantine) or waive the affected comparison, directed shapes re-confirm them."
for _pid, _tech, _fam, _ref in [
    ("C01", "TLC full interleaving enumeration of LoomSem vs. outcome set of real loom::model; trace validation (LoomSemTrace); Dpor.tla (Execution::schedule as a spec): TLC checks Complete over whole program spaces, predicted schedule sets compared with the real runs", "SyncMix (every mix of object kinds, SeqCst atomics) + Dpor program spaces (all programs of 2-3 spawned threads x 1-2 blocks over loads, stores, mutex sections)", "C01"),
    ("C04", "TLC reachability of Race in LoomSem (vector-clock happens-before) vs. loom's causality panic; trace validation of the failing iteration's state", "RaceIdioms (each synchronisation idiom, correct and broken; UnsafeCell with/with_mut, pointers held across operations, the loom::cell::Cell API, Atomic::with_mut/unsync_load) + random", "C04"),
    ("C05", "TLC reachability of Deadlock in LoomSem vs. loom's deadlock panic; trace validation pins the report to a deadlocked spec state; TLC on Dpor.tla (who is blocked / woken by each acquisition) with the invariants Complete and Sound over nested two-mutex spaces, try_lock included", "Blocking (lock inversions, lost wake-ups, park tokens, channels, holders that wait for a try_lock-er)", "C05"),
    ("C07", "trace validation against LoomSem's lock machine (owner/readers, try_* both directions, hand-over views) + outcome-set sandwich", "Locks (2 mutexes, rwlock, nested/overlapping sections, protected cells)", "C07"),
    ("C08", "trace validation against LoomSem's wait/notify machine (condvar 3-step wait, Notify flag + one spurious return, park token, join) + outcome/deadlock sandwich", "WaitNotify", "C08"),
    ("C09", "trace validation against LoomSem's FIFO channel + outcome-set sandwich + leak/deadlock kinds", "Chan (1-3 senders, recv/try_recv, receiver drop)", "C09"),
    ("C10", "TLC reachability of Leak kinds at termination in LoomSem vs. loom's leak panics (kind must match)", "Leaks (arcs, Track, channel; every release route; schedule-dependent leaks)", "C10"),
    ("C11", "outcome-set sandwich against LoomSem's reference-count machine + trace validation of returned counts + payload drop counter + race detector on the payload cell", "Arcs", "C11"),
]:
    CLAIMED[_pid] = dict(technique=_tech, text=SANDWICH + " Family: " + _fam + ".", note=TRUST, ref="DESIGN.md §6 " + _ref)

ENGINE = "Explore.tla (implementation-shaped spec of rt/path.rs and the Builder::check loop): (1) ExploreMC.tla runs it against lazily chosen abstract decision trees, TLC checks the engine invariants and every finished behaviour is replayed into the real rt::Path through loom::verif::PathDriver with a serde round trip after every step; (2) ExploreTrace.tla re-computes Path::step on the path snapshots the iteration hook recorded during real runs."
for _pid, _tech, _txt in [
    ("C12", "AtomicSeq.tla: W-bit register in limb arithmetic, TLC enumerates every (value, operation, operands) transition; sequences replayed on loom and std atomics (three-way)",
     "TLC enumerates all transitions of the reference register over boundary operands for all 12 atomic types; every transition and random chains of them are executed on loom::sync::atomic inside a model and on std::sync::atomic; spec = std validates the spec, spec = loom is the property."),
    ("C13", "ExploreTrace.tla validates the snapshot sequences of stopped and resumed runs; resume oracle from CheckLoop.tla/Explore.tla; ExploreMC behaviours replayed with a serde round trip at every step",
     "Two uninterrupted runs must agree snapshot by snapshot; for every stop point k and interval c the resumed run (new process, loaded checkpoint) must replay iterations s..N of the uninterrupted run exactly; a checkpoint written before a failing iteration must fail first. " + ENGINE),
    ("C14", "ExploreTrace.tla: each recorded step is Explore!StepPath of the previous snapshot, strict DFS order; TLC invariants NoRepeat/Terminates on abstract trees; replay into rt::Path; Dpor.tla NoRepeat + predicted = executed schedule sets",
     "Every consecutive pair of recorded path snapshots of real runs must be the spec's DFS successor, decision sequences pairwise distinct, iteration count = number of paths, done only when nothing is left. " + ENGINE),
    ("C15", "LoomSemTrace.tla counts preemptions independently on every recorded iteration (enabledness in the spec state); ExploreTrace.tla bounds every pushed schedule; set inclusions across bounds; Dpor.tla: TLC checks Sound/Monotone/Saturates of the bounded reduction over whole program spaces and its predicted schedule sets are compared with the real runs",
     "For n in 0..6 (and n >= #ops): every iteration's independent preemption count <= n, loom_n subset-of loom_unbounded, monotone in n, equal at large n. " + ENGINE),
    ("C17", "outcome soundness + trace validation against LoomSem's per-thread / per-execution static maps, init/drop counters in every outcome",
     "TLC enumerates the reference outcomes of programs over 2 thread-locals and 2 lazy statics (one with a scheduling point inside its initialiser); every loom outcome incl. init/drop counters must be a reference outcome, every iteration validates from the spec's Init (re-initialisation), no causality panic on data published through a lazy static."),
    ("C18", "outcome-set sandwich against LoomSem in which an await loop is one blocking read; Never variants must end at the branch limit",
     "Lower(P) subset-of loom(P) subset-of Upper(P) on await programs, no branch-limit panic when the condition is established in every execution, branch-limit panic (not a hang, not a return) when it never is."),
    ("C19", "ExploreTrace.tla (frozen non-exploring branches) + trace validation + subset checks for every region placement; CheckLoop.tla (TLC) gives the expected iteration counts for max_permutations/max_duration grids, and (thorough tier) Apalache discharges an inductive invariant of the loop bound for all n and max_permutations (specs/ind/CheckLoopInd.tla)",
     "stop_exploring/explore/skip_branch/expect_explicit_explore at every placement: subset of the unrestricted result set, every iteration valid, no Pending in a frozen branch; max_branches at need-1/need/need+2, max_threads below/at need, max_permutations x checkpoint_interval grid against CheckLoop.tla. " + ENGINE),
    ("C20", "outcome/deadlock sandwich + trace validation against LoomSem's future layer (block_on loop over a Notify with one spurious return, AtomicWaker slot under its lock)",
     "Programs with one blocked future (register-then-check and check-then-register) and 1-2 wakers: returned value and number of polls must be reference outcomes, deadlock reported iff reachable, no leak report."),
]:
    CLAIMED[_pid] = dict(technique=_tech, text=_txt, note=TRUST, ref="DESIGN.md §6 " + _pid,
                         engine="Explore+pathdriver" if _pid in ("C13", "C14", "C15", "C19") else ("AtomicSeq replayer" if _pid == "C12" else "LoomSem+interpreter"))

CLAIMED["C06"] = dict(
    technique="crash-point enumeration: a panic at every instruction index of every thread (also guarded by loaded values); TLC (LoomSem with the Panic action) decides for each whether a failure is reachable; the real run is observed from outside the driver child process",
    text="For ~16 base programs covering the situations in which a panic can strike (locks held, threads blocked in recv/join/park/condvar, loom Arc in a frame / in a not-yet-started thread's closure, Track, Receiver, thread-locals, lazy statics) a panic is inserted at every instruction of every thread; Builder::check must unwind with that panic iff TLC reaches it, return normally otherwise, never abort or hang the process, and a probe model run afterwards in the same process must reproduce its solo result exactly.",
    note=TRUST + " Why a destructor aborts is outside any state machine: the spec contributes the complete crash-point enumeration and the expected verdicts, the observation is process-level.",
    ref="DESIGN.md §6 C06", engine="LoomSem+interpreter")
CLAIMED["C16"] = dict(
    technique="trace validation of every iteration from the spec's Init (LoomSemTrace reset) + equality of the full (path snapshot, outcome) sequence of a program alone / after other (failing) models / alongside another model on a second OS thread",
    text="12 base programs touching every kind of per-execution state x 7 disturbers (4 of them failing and leaving state behind): every iteration must be a behaviour of LoomSem started from Init, and the base program's recorded sequence must be identical in a fresh process, after the disturber in the same process, and concurrently with another model.",
    note=TRUST + " Cross-OS-thread interference is sampled by repetition, not enumerated.",
    ref="DESIGN.md §6 C16", engine="LoomSem+interpreter")

PENDING = "check not built yet (crash-point / isolation families in progress; see DESIGN.md §10 build order)"

def main():
    props = [json.loads(l) for l in open("/verif/properties.jsonl")]
    head = subprocess.run(["git", "-C", "/repo", "log", "--format=%h %s"], capture_output=True, text=True).stdout.splitlines()
    hooks = [l.split()[0] for l in head if "verification hooks" in l or l.split(" ", 1)[1].startswith("hook:")]
    m = {
        "version": 1,
        "setup_cmd": "cd /verif/harness && (test -f Cargo.lock || cp /repo/Cargo.lock .) && CARGO_NET_OFFLINE=true cargo build --release --offline && cd /verif/specs && for f in LoomSem LoomSemTrace Explore ExploreMC ExploreTrace CheckLoop AtomicSeq RC11Ax Dpor; do tla-sany $f.tla >/dev/null || exit 1; done",
        "hooks": {
            "guard": "cargo feature `verif` (implies `checkpoint`)",
            "enable": "harness/Cargo.toml: loom = { path = \"/repo\", features = [\"verif\", \"futures\"] }",
            "baseline_off_cmd": "cd /repo && cargo test --workspace --no-fail-fast --offline",
            "source_commits": hooks,
            "add_only": True,
        },
        "engines": [
            {"name": "Explore+pathdriver", "path": "specs/Explore.tla, specs/ExploreMC.tla, specs/ExploreTrace.tla, specs/CheckLoop.tla, harness/src/bin/pathreplay.rs, gen/pathcheck.py, gen/enginecheck.py",
             "serves_properties": ["C13", "C14", "C15", "C19"], "kind_free_text": "implementation-shaped TLA+ spec of the DFS engine, bound to rt::Path by replay (spec->impl) and by validation of recorded snapshots (impl->spec)"},
            {"name": "AtomicSeq replayer", "path": "specs/AtomicSeq.tla, harness/src/bin/atomicseq.rs", "serves_properties": ["C12"],
             "kind_free_text": "TLC-enumerated register transitions replayed on loom and std atomics"},
            {"name": "LoomSem+interpreter", "path": "specs/LoomSem.tla, specs/LoomSemTrace.tla, harness/src/interp.rs, gen/",
             "serves_properties": sorted(k for k in CLAIMED if k not in ("C12", "C13", "C14", "C19")), "kind_free_text": "TLC enumeration of a reference semantics per program, compared with / validated against runs of the real loom::model on the same DSL program"},
        ],
        "checks": [],
        "not_applicable": [],
        "notes": "All checks: ./check <id> --tier quick|thorough; exit 0 held, 1 VIOLATION, 2 tool error. Known findings: known_findings.json.",
    }
    for p in props:
        pid = p["id"]
        if pid in CLAIMED:
            c = CLAIMED[pid]
            m["checks"].append({
                "property_id": pid,
                "quick_cmd": f"./check {pid} --tier quick",
                "thorough_cmd": f"./check {pid} --tier thorough",
                "evidence_file": f"/verif/evidence/{pid}.json",
                "replay_cmd_template": f"./check {pid} --replay {{path}}",
                "engine": c.get("engine", "LoomSem+interpreter"),
                "level_claimed": {"category": "model_checking", "text": c["text"], "design_ref": c["ref"]},
                "level_note": c["note"],
                "technique": c["technique"],
            })
        else:
            m["not_applicable"].append({"property_id": pid, "reason": PENDING})
    json.dump(m, open("/verif/MANIFEST.json", "w"), indent=1)

if __name__ == "__main__":
    main()
