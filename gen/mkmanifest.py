#!/usr/bin/env python3
"""Writes /verif/MANIFEST.json from the table below (kept in one place so it stays valid)."""
import json, subprocess

CLAIMED = {
    "C02": dict(
        technique="TLA+ view-machine spec (LoomSem.tla) enumerated by TLC per litmus program; Lower(P) subset-of loom(P) set comparison against the real loom::model",
        text="TLC enumerates every terminal state of the reference view machine (strongest documented synchronisation) for each program of the litmus family (enumerated shapes x orderings + seeded random tail); every outcome must be produced by some iteration of the real Builder::check on the same program. Exhaustive per program within the family bounds (<= 4 modelled threads besides main, <= 7 ops, <= 3 locations).",
        note="Trusted: LoomSem's view machine as the meaning of RC11 without load buffering (cross-checked against an axiomatic RC11 spec), the DSL interpreter, TLC. Programs with SeqCst accesses use the interleaving outcome set as lower bound.",
        ref="DESIGN.md §6 C02"),
    "C03": dict(
        technique="TLA+ view-machine spec enumerated by TLC; loom(P) subset-of Upper(P) on every iteration's outcome (outcome fixes reads-from: distinct values)",
        text="Every outcome of every iteration the real loom executes on each litmus program must be an outcome of the reference view machine under the weakest documented synchronisation (SeqCst accesses as acq/rel, no same-thread release sequences).",
        note="Trusted: LoomSem, interpreter, TLC. Open findings F3/F4 (known_findings.json) are re-confirmed on the enumerated core; the random tail does not draw their trigger (families.q_mo).",
        ref="DESIGN.md §6 C03"),
}

SANDWICH = "TLC enumerates every terminal state of LoomSem (reference semantics, no reduction) for each program of the family under the strongest (Lower) and weakest (Upper) documented synchronisation; the real loom::model on the same program must satisfy Lower(P) subset-of loom(P) subset-of Upper(P), report a failure kind iff the spec reaches it, and every recorded iteration must be accepted by LoomSemTrace (enabling conditions evaluated at each event)."
TRUST = "Trusted: LoomSem as the documented semantics (std + loom docs, DESIGN.md App. B), the DSL interpreter's logging discipline, TLC. Open findings are listed in known_findings.json; generated programs avoid their triggers (quarantine) or waive the affected comparison, directed shapes re-confirm them."
for _pid, _tech, _fam, _ref in [
    ("C01", "TLC full interleaving enumeration of LoomSem vs. outcome set of real loom::model; trace validation (LoomSemTrace)", "SyncMix (every mix of object kinds, SeqCst atomics)", "C01"),
    ("C04", "TLC reachability of Race in LoomSem (vector-clock happens-before) vs. loom's causality panic; trace validation of the failing iteration's state", "RaceIdioms (each synchronisation idiom, correct and broken) + random", "C04"),
    ("C05", "TLC reachability of Deadlock in LoomSem vs. loom's deadlock panic; trace validation pins the report to a deadlocked spec state", "Blocking (lock inversions, lost wake-ups, park tokens, channels)", "C05"),
    ("C07", "trace validation against LoomSem's lock machine (owner/readers, try_* both directions, hand-over views) + outcome-set sandwich", "Locks (2 mutexes, rwlock, nested/overlapping sections, protected cells)", "C07"),
    ("C08", "trace validation against LoomSem's wait/notify machine (condvar 3-step wait, Notify flag + one spurious return, park token, join) + outcome/deadlock sandwich", "WaitNotify", "C08"),
    ("C09", "trace validation against LoomSem's FIFO channel + outcome-set sandwich + leak/deadlock kinds", "Chan (1-3 senders, recv/try_recv, receiver drop)", "C09"),
    ("C10", "TLC reachability of Leak kinds at termination in LoomSem vs. loom's leak panics (kind must match)", "Leaks (arcs, Track, channel; every release route; schedule-dependent leaks)", "C10"),
    ("C11", "outcome-set sandwich against LoomSem's reference-count machine + trace validation of returned counts + payload drop counter + race detector on the payload cell", "Arcs", "C11"),
]:
    CLAIMED[_pid] = dict(technique=_tech, text=SANDWICH + " Family: " + _fam + ".", note=TRUST, ref="DESIGN.md §6 " + _ref)

PENDING = "check not built yet in this round (framework in progress; see DESIGN.md §10 build order)"

def main():
    props = [json.loads(l) for l in open("/verif/properties.jsonl")]
    head = subprocess.run(["git", "-C", "/repo", "log", "--format=%h %s"], capture_output=True, text=True).stdout.splitlines()
    hooks = [l.split()[0] for l in head if "verification hooks" in l or l.split(" ", 1)[1].startswith("hook:")]
    m = {
        "version": 1,
        "setup_cmd": "cd /verif/harness && (test -f Cargo.lock || cp /repo/Cargo.lock .) && CARGO_NET_OFFLINE=true cargo build --release --offline && cd /verif/specs && for f in LoomSem MCSem LoomSemTrace; do tla-sany $f.tla >/dev/null || exit 1; done",
        "hooks": {
            "guard": "cargo feature `verif` (implies `checkpoint`)",
            "enable": "harness/Cargo.toml: loom = { path = \"/repo\", features = [\"verif\", \"futures\"] }",
            "baseline_off_cmd": "cd /repo && cargo test --workspace --no-fail-fast --offline",
            "source_commits": hooks,
            "add_only": True,
        },
        "engines": [
            {"name": "LoomSem+interpreter", "path": "specs/LoomSem.tla, harness/src/interp.rs, gen/",
             "serves_properties": sorted(CLAIMED), "kind_free_text": "TLC enumeration of a reference semantics per program, compared with / validated against runs of the real loom::model on the same DSL program"},
        ],
        "checks": [],
        "not_applicable": [],
        "notes": "All checks: ./check <id> --tier quick|thorough; exit 0 held, 1 VIOLATION, 2 tool error. Known findings: known_findings.json.",
    }
    for p in props:
        pid = p["id"]
        if pid in CLAIMED:
            c = CLAIMED[pid]
            m["checks"].append({
                "property_id": pid,
                "quick_cmd": f"./check {pid} --tier quick",
                "thorough_cmd": f"./check {pid} --tier thorough",
                "evidence_file": f"/verif/evidence/{pid}.json",
                "replay_cmd_template": f"./check {pid} --replay {{path}}",
                "engine": c.get("engine", "LoomSem+interpreter"),
                "level_claimed": {"category": "model_checking", "text": c["text"], "design_ref": c["ref"]},
                "level_note": c["note"],
                "technique": c["technique"],
            })
        else:
            m["not_applicable"].append({"property_id": pid, "reason": PENDING})
    json.dump(m, open("/verif/MANIFEST.json", "w"), indent=1)

if __name__ == "__main__":
    main()
