//! Interpreter of the program DSL over the *real* loom primitives.
//!
//! Discipline (DESIGN.md §3.1): all bookkeeping lives in `std` types that loom
//! cannot see; the log push is the first statement after each loom call
//! returns; no `std` lock or `RefCell` borrow is held across a loom operation
//! (loom threads are coroutines on one OS thread, so a context switch inside
//! the operation would re-enter it).
use serde::Deserialize;
use std::cell::{RefCell, UnsafeCell};
use std::collections::HashMap;
use std::sync::atomic::{AtomicUsize as StdAtomicUsize, Ordering as StdOrd};
use std::sync::Arc as SArc;

use loom::sync::atomic::{fence, AtomicUsize, Ordering};

#[derive(Deserialize, Clone, Debug)]
pub struct Ins {
    pub op: String,
    #[serde(default)]
    pub o: String,
    #[serde(default)]
    pub o2: String,
    #[serde(default)]
    pub v: i64,
    #[serde(default)]
    pub w: i64,
    #[serde(default)]
    pub ord: String,
    #[serde(default)]
    pub ord2: String,
    #[serde(default)]
    pub k: String,
    #[serde(default)]
    pub r: usize,
}

#[derive(Deserialize, Clone, Debug, Default)]
pub struct Prog {
    pub threads: Vec<Vec<Ins>>,
    #[serde(default)]
    pub atoms: Vec<String>,
    #[serde(default)]
    pub cells: Vec<String>,
    #[serde(default)]
    pub mtxs: Vec<String>,
    #[serde(default)]
    pub rws: Vec<String>,
    #[serde(default)]
    pub cvs: Vec<String>,
    #[serde(default)]
    pub ntfs: Vec<String>,
    #[serde(default)]
    pub chans: Vec<String>,
    #[serde(default)]
    pub arcs: Vec<String>,
    #[serde(default)]
    pub trks: Vec<String>,
    #[serde(default)]
    pub aws: Vec<String>,
    #[serde(default)]
    pub slots: Vec<String>,
    #[serde(default)]
    pub tls: Vec<String>,
    #[serde(default)]
    pub lzs: Vec<String>,
    #[serde(default)]
    pub hmap: HashMap<String, String>,
    #[serde(default)]
    pub h0: Vec<String>,
    #[serde(default)]
    pub acell: HashMap<String, String>,
}

/// One logged event: thread (1-based), pc (1-based), op, result.
#[derive(Clone, Debug, PartialEq, Eq, Hash)]
pub struct Ev {
    pub t: usize,
    pub pc: usize,
    pub res: Option<i64>,
}

thread_local! {
    /// Event log of the iteration in progress (per OS thread: loom coroutines
    /// share the OS thread of the model, concurrent models have their own).
    pub static LOG: RefCell<Vec<Ev>> = RefCell::new(Vec::new());
    /// Payload drop counters of the iteration in progress, per arc.
    pub static DROPS: RefCell<Vec<SArc<StdAtomicUsize>>> = RefCell::new(Vec::new());
}

// ---------------------------------------------------------------- statics (C17)
// Init / drop counters live in std thread-locals of the OS thread running the model.
std::thread_local! {
    /// [T0 init, T0 drop, T1 init, T1 drop, Z0 init, Z0 drop, Z1 init, Z1 drop]
    pub static STAT: [StdAtomicUsize; 10] = Default::default();
    /// cells the lazy initialisers write (set per iteration)
    static LZ_CELLS: RefCell<[Option<SArc<US<loom::cell::UnsafeCell<usize>>>>; 2]> = RefCell::new([None, None]);
    /// what the initialiser of LZ1 does besides constructing: "yield" (yield_now) or "rmw" (an RMW on the loom atomic `lzc`,
    /// a scheduling point that is no yield); set by the interpreter right before it touches the static
    static LZ_MODE: RefCell<String> = RefCell::new(String::from("yield"));
    static LZ_ATOM: std::cell::Cell<*const AtomicUsize> = std::cell::Cell::new(std::ptr::null());
    /// atoms `tl0c` / `tl1c` (if the program declares them): the destructor of thread-local value k does an RMW on atom k
    /// (a loom operation inside a thread-local destructor; C13 only: the reference semantics does not model it)
    static TL_ATOMS: std::cell::Cell<[*const AtomicUsize; 2]> = std::cell::Cell::new([std::ptr::null(); 2]);
    /// the shared state of the iteration that is running (weak: a thread-local value that touches an atomic from its
    /// destructor keeps the state alive until then, nothing else does)
    static CUR_SH: RefCell<std::sync::Weak<Sh>> = RefCell::new(std::sync::Weak::new());
}
fn stat_add(i: usize) -> usize {
    STAT.with(|s| s[i].fetch_add(1, StdOrd::SeqCst))
}
pub struct TlVal {
    k: usize,
    cnt: std::cell::Cell<usize>,
    /// a leak-tracked allocation owned by the value: an instance that is never destroyed shows as a leak report
    _trk: loom::alloc::Track<()>,
    /// keeps the atomics alive for the destructor (only when the program asks for a destructor that touches one)
    keep: Option<SArc<Sh>>,
}
impl TlVal {
    fn new(k: usize) -> TlVal {
        stat_add(2 * k);
        let wants = !TL_ATOMS.with(|t| t.get()[k]).is_null();
        let keep = if wants { CUR_SH.with(|c| c.borrow().upgrade()) } else { None };
        TlVal { k, cnt: std::cell::Cell::new(0), _trk: loom::alloc::Track::new(()), keep }
    }
    fn bump(&self) -> usize {
        let c = self.cnt.get();
        self.cnt.set(c + 1);
        c
    }
}
impl Drop for TlVal {
    fn drop(&mut self) {
        stat_add(2 * self.k + 1);
        let a = TL_ATOMS.with(|t| t.get()[self.k]);
        if !a.is_null() && self.keep.is_some() && !std::thread::panicking() {
            unsafe { (*a).fetch_add(1, Ordering::SeqCst) };
        }
        if self.k == 1 && !std::thread::panicking() {
            // the value is being destroyed with its thread: its key must report AccessError by now
            // (STAT[8]: try_with still succeeded, STAT[9]: AccessError)
            match TL1.try_with(|_| ()) {
                Ok(()) => stat_add(8),
                Err(_) => stat_add(9),
            };
        }
    }
}
pub struct LzVal {
    k: usize,
    id: usize,
    /// data that lives inside the instance and is written by its initialiser
    own: US<loom::cell::UnsafeCell<usize>>,
}
impl LzVal {
    fn new(k: usize) -> LzVal {
        let id = stat_add(4 + 2 * k);
        let cell = LZ_CELLS.with(|c| c.borrow()[k].clone());
        if let Some(c) = cell {
            c.get().with_mut(|_| ());
        }
        if k == 1 {
            // a scheduling point inside the initialiser: another thread may race on first access
            let rmw = LZ_MODE.with(|m| m.borrow().as_str() == "rmw");
            let a = LZ_ATOM.with(|a| a.get());
            if rmw && !a.is_null() {
                unsafe { (*a).fetch_add(1, Ordering::Relaxed) };
            } else {
                loom::thread::yield_now();
            }
        }
        let own = US::new(loom::cell::UnsafeCell::new(0usize));
        own.get().with_mut(|_| ());
        LzVal { k, id, own }
    }
}
impl Drop for LzVal {
    fn drop(&mut self) {
        stat_add(4 + 2 * self.k + 1);
    }
}
loom::thread_local! {
    static TL0: TlVal = TlVal::new(0);
    static TL1: TlVal = TlVal::new(1);
}
loom::lazy_static! {
    static ref LZ0: LzVal = LzVal::new(0);
    static ref LZ1: LzVal = LzVal::new(1);
}
fn tl_bump(name: &str) -> usize {
    match name {
        "T0" => TL0.with(|v| v.bump()),
        "T1" => TL1.with(|v| v.bump()),
        n => panic!("harness: unknown thread-local {:?}", n),
    }
}
fn tl_nest(outer: &str, inner: &str) -> usize {
    match outer {
        "T0" => TL0.with(|v| { v.bump(); tl_bump(inner) }),
        "T1" => TL1.with(|v| { v.bump(); tl_bump(inner) }),
        n => panic!("harness: unknown thread-local {:?}", n),
    }
}
fn lz_ref(name: &str) -> &'static LzVal {
    match name {
        "Z0" => &*LZ0,
        "Z1" => &*LZ1,
        n => panic!("harness: unknown lazy static {:?}", n),
    }
}

fn log(t: usize, pc: usize, res: Option<i64>) {
    LOG.with(|l| l.borrow_mut().push(Ev { t, pc: pc + 1, res }));
}

/// `UnsafeCell` that claims to be `Sync`: every access happens on the single OS
/// thread that runs the model's coroutines.
pub struct US<T>(UnsafeCell<T>);
unsafe impl<T> Sync for US<T> {}
unsafe impl<T> Send for US<T> {}
impl<T> US<T> {
    fn new(v: T) -> Self {
        US(UnsafeCell::new(v))
    }
    #[allow(clippy::mut_from_ref)]
    fn get(&self) -> &mut T {
        unsafe { &mut *self.0.get() }
    }
}

pub struct Payload {
    cell: Option<SArc<US<loom::cell::UnsafeCell<usize>>>>,
    drops: SArc<StdAtomicUsize>,
}
impl Drop for Payload {
    fn drop(&mut self) {
        self.drops.fetch_add(1, StdOrd::SeqCst);
        if let Some(c) = &self.cell {
            c.get().with_mut(|_| ());
        }
    }
}

enum Slot {
    Arc(loom::sync::Arc<Payload>),
    Raw(*const Payload),
}

/// A frame-owned guard whose destructor touches an atomic (the "reset the state word on drop" idiom).  It does so
/// when its thread's frame ends normally and when the frame unwinds because of a panic raised by this very thread
/// (armed); it stays away when the frame is cancelled from outside (another thread's panic tears the execution down).
pub struct AGuard {
    sh: SArc<Sh>,
    i: usize,
    armed: std::rc::Rc<std::cell::Cell<bool>>,
}
impl Drop for AGuard {
    fn drop(&mut self) {
        if !std::thread::panicking() || self.armed.get() {
            let _ = self.sh.atoms[self.i].get().load(Ordering::Relaxed);
        }
    }
}

type MG = loom::sync::MutexGuard<'static, usize>;
type RG = loom::sync::RwLockReadGuard<'static, usize>;
type WG = loom::sync::RwLockWriteGuard<'static, usize>;

pub struct Sh {
    prog: SArc<Prog>,
    idx: HashMap<String, usize>,
    atoms: Vec<US<AtomicUsize>>,
    cells: Vec<SArc<US<loom::cell::UnsafeCell<usize>>>>,
    /// `loom::cell::Cell`s, for the cell names used through the Cell API (rd/wr with k = cell | replace | take)
    ccells: Vec<Option<US<loom::cell::Cell<usize>>>>,
    mtxs: Vec<US<Option<loom::sync::Mutex<usize>>>>,
    rws: Vec<US<Option<loom::sync::RwLock<usize>>>>,
    cvs: Vec<loom::sync::Condvar>,
    ntfs: Vec<loom::sync::Notify>,
    txs: Vec<US<Option<loom::sync::mpsc::Sender<usize>>>>,
    rxs: Vec<US<Option<loom::sync::mpsc::Receiver<usize>>>>,
    aws: Vec<loom::future::AtomicWaker>,
    /// raw waker slots: plain shared memory (a std mutex held only for the swap itself)
    slots: Vec<std::sync::Mutex<Option<std::task::Waker>>>,
    handles: US<HashMap<String, Slot>>,
    trks: US<HashMap<String, loom::alloc::Track<()>>>,
    jh: US<HashMap<usize, loom::thread::JoinHandle<()>>>,
    th: US<HashMap<usize, loom::thread::Thread>>,
}

impl Drop for Sh {
    fn drop(&mut self) {
        // Whatever the program did not release itself is *leaked*, never
        // released on its behalf (and never touched outside an execution).
        for (_, s) in self.handles.get().drain() {
            std::mem::forget(s);
        }
        for (_, t) in self.trks.get().drain() {
            std::mem::forget(t);
        }
        for r in self.rxs.iter() {
            std::mem::forget(r.get().take());
        }
        if std::thread::panicking() {
            // a registered waker must not be dropped outside an execution
            for a in self.aws.drain(..) {
                std::mem::forget(a);
            }
            for s in self.slots.drain(..) {
                std::mem::forget(s);
            }
        }
    }
}

fn ord(s: &str) -> Ordering {
    match s {
        "rlx" => Ordering::Relaxed,
        "acq" => Ordering::Acquire,
        "rel" => Ordering::Release,
        "acqrel" => Ordering::AcqRel,
        "sc" => Ordering::SeqCst,
        o => panic!("harness: bad ordering {:?}", o),
    }
}

impl Sh {
    fn new(prog: SArc<Prog>) -> Sh {
        let mut idx = HashMap::new();
        for list in [
            &prog.atoms, &prog.cells, &prog.mtxs, &prog.rws, &prog.cvs, &prog.ntfs, &prog.chans,
            &prog.arcs, &prog.aws, &prog.slots,
        ] {
            for (i, n) in list.iter().enumerate() {
                idx.insert(n.clone(), i);
            }
        }
        let atoms: Vec<US<AtomicUsize>> = prog.atoms.iter().map(|_| US::new(AtomicUsize::new(0))).collect();
        let cells: Vec<_> = prog
            .cells
            .iter()
            .map(|_| SArc::new(US::new(loom::cell::UnsafeCell::new(0usize))))
            .collect();
        let cell_api = |n: &String| {
            prog.threads.iter().flatten().any(|i| (i.op == "rd" || i.op == "wr") && &i.o == n && matches!(i.k.as_str(), "cell" | "replace" | "take"))
        };
        let ccells = prog.cells.iter().map(|n| if cell_api(n) { Some(US::new(loom::cell::Cell::new(0usize))) } else { None }).collect();
        let mtxs = prog.mtxs.iter().map(|_| US::new(Some(loom::sync::Mutex::new(0usize)))).collect();
        let rws = prog.rws.iter().map(|_| US::new(Some(loom::sync::RwLock::new(0usize)))).collect();
        let cvs = prog.cvs.iter().map(|_| loom::sync::Condvar::new()).collect();
        let ntfs = prog.ntfs.iter().map(|_| loom::sync::Notify::new()).collect();
        let aws = prog.aws.iter().map(|_| loom::future::AtomicWaker::new()).collect();
        let slots = prog.slots.iter().map(|_| std::sync::Mutex::new(None)).collect();
        let mut txs = vec![];
        let mut rxs = vec![];
        for _ in prog.chans.iter() {
            let (tx, rx) = loom::sync::mpsc::channel::<usize>();
            txs.push(US::new(Some(tx)));
            rxs.push(US::new(Some(rx)));
        }
        let mut handles = HashMap::new();
        let mut drops = vec![];
        for a in prog.arcs.iter() {
            let d = SArc::new(StdAtomicUsize::new(0));
            drops.push(d.clone());
            let cell = match prog.acell.get(a).map(|s| s.as_str()) {
                Some("") | None => None,
                Some(c) => Some(cells[idx[c]].clone()),
            };
            let mine: Vec<&String> = prog.h0.iter().filter(|h| &prog.hmap[*h] == a).collect();
            if let Some((first, rest)) = mine.split_first() {
                let arc = loom::sync::Arc::new(Payload { cell, drops: d });
                for h in rest {
                    handles.insert((*h).clone(), Slot::Arc(arc.clone()));
                }
                handles.insert((*first).clone(), Slot::Arc(arc));
            }
        }
        DROPS.with(|x| *x.borrow_mut() = drops);
        STAT.with(|s| for c in s.iter() { c.store(0, StdOrd::SeqCst); });
        TL_ATOMS.with(|t| t.set([
            match idx.get("tl0c") { Some(i) => atoms[*i].get() as *const AtomicUsize, None => std::ptr::null() },
            match idx.get("tl1c") { Some(i) => atoms[*i].get() as *const AtomicUsize, None => std::ptr::null() },
        ]));
        LZ_ATOM.with(|a| a.set(match idx.get("lzc") { Some(i) => atoms[*i].get() as *const AtomicUsize, None => std::ptr::null() }));
        LZ_CELLS.with(|c| {
            let mut c = c.borrow_mut();
            for k in 0..2 {
                c[k] = idx.get(&format!("c_Z{}", k)).map(|i| cells[*i].clone());
            }
        });
        Sh {
            prog,
            idx,
            atoms,
            cells,
            ccells,
            mtxs,
            rws,
            cvs,
            ntfs,
            txs,
            rxs,
            aws,
            slots,
            handles: US::new(handles),
            trks: US::new(HashMap::new()),
            jh: US::new(HashMap::new()),
            th: US::new(HashMap::new()),
        }
    }
}

/// The hand-written future of C20: register in an AtomicWaker and test a flag, in either order.
struct Fut {
    sh: SArc<Sh>,
    aw: usize,
    flag: usize,
    ord: Ordering,
    reg_first: bool,
    polls: SArc<StdAtomicUsize>,
    /// ready when the flag holds this value (0: any non-zero value)
    want: usize,
}
impl std::future::Future for Fut {
    type Output = usize;
    fn poll(self: std::pin::Pin<&mut Self>, cx: &mut std::task::Context<'_>) -> std::task::Poll<usize> {
        self.polls.fetch_add(1, StdOrd::SeqCst);
        if self.reg_first {
            self.sh.aws[self.aw].register_by_ref(cx.waker());
        }
        let v = self.sh.atoms[self.flag].get().load(self.ord);
        if (self.want == 0 && v != 0) || (self.want != 0 && v == self.want) {
            return std::task::Poll::Ready(v);
        }
        if !self.reg_first {
            self.sh.aws[self.aw].register_by_ref(cx.waker());
        }
        std::task::Poll::Pending
    }
}

/// The raw-waker future of C20: stash clones of the waker in plain slots, then test one or two flags.
struct RawFut {
    sh: SArc<Sh>,
    s1: usize,
    s2: Option<usize>,
    f1: usize,
    f2: Option<usize>,
    ready: usize,
    ord: Ordering,
    polls: SArc<StdAtomicUsize>,
    /// the first flag counts as set when it holds this value (0: any non-zero value)
    want: usize,
}
fn stash(sh: &Sh, slot: usize, w: std::task::Waker) {
    let old = {
        let mut g = sh.slots[slot].lock().unwrap();
        std::mem::replace(&mut *g, Some(w))
    };
    drop(old); // outside the std lock: dropping a waker is a loom operation
}
impl std::future::Future for RawFut {
    type Output = usize;
    fn poll(self: std::pin::Pin<&mut Self>, cx: &mut std::task::Context<'_>) -> std::task::Poll<usize> {
        self.polls.fetch_add(1, StdOrd::SeqCst);
        stash(&self.sh, self.s1, cx.waker().clone());
        if let Some(s2) = self.s2 {
            stash(&self.sh, s2, cx.waker().clone());
        }
        // announce that the slots are filled (relaxed: orders nothing, the wakers just wait for it)
        self.sh.atoms[self.ready].get().store(1, Ordering::Relaxed);
        let v = self.sh.atoms[self.f1].get().load(self.ord);
        if (self.want == 0 && v == 0) || (self.want != 0 && v != self.want) {
            return std::task::Poll::Pending;
        }
        if let Some(f2) = self.f2 {
            let g = self.sh.atoms[f2].get().load(self.ord);
            if g == 0 {
                return std::task::Poll::Pending;
            }
            return std::task::Poll::Ready(g);
        }
        std::task::Poll::Ready(v)
    }
}

struct AssertSend<T>(T);
unsafe impl<T> Send for AssertSend<T> {}
impl<T: FnOnce()> AssertSend<T> {
    fn call(self) {
        (self.0)()
    }
}

/// `v` is owned by a frame that unwinds because of a panic which is caught inside the model.
/// uses about `kib` KiB of the calling thread's stack
#[inline(never)]
fn burn_stack(kib: usize) -> usize {
    let mut a = [0u8; 1024];
    a[kib % 1024] = 1;
    let a = std::hint::black_box(a);
    if kib == 0 {
        a[0] as usize
    } else {
        a[1] as usize + burn_stack(kib - 1)
    }
}

fn drop_by_caught_unwind<T>(v: T) {
    let r = std::panic::catch_unwind(std::panic::AssertUnwindSafe(move || {
        let _owned = v;
        std::panic::resume_unwind(Box::new("verif-caught"));
    }));
    assert!(r.is_err());
}

/// The model closure: what `Builder::check` runs once per iteration.
pub fn run_main(prog: SArc<Prog>) {
    let needs_main_handle = prog
        .threads
        .iter()
        .any(|th| th.iter().any(|i| i.op == "unpark" && i.v == 1));
    let sh = SArc::new(Sh::new(prog));
    CUR_SH.with(|c| *c.borrow_mut() = SArc::downgrade(&sh));
    if needs_main_handle {
        sh.th.get().insert(1, loom::thread::current());
    }
    run_thread(sh, 1);
}

fn run_thread(sh: SArc<Sh>, t: usize) {
    let prog = sh.prog.clone();
    let code = &prog.threads[t - 1];
    let mut regs: Vec<i64> = Vec::new();
    // guards are declared after `sh` so that they are dropped before it
    // handles owned by this thread's frame (dropped when the frame unwinds)
    let mut held: HashMap<String, Slot> = HashMap::new();
    let mut lzrefs: HashMap<String, &'static LzVal> = HashMap::new();
    let mut mg: HashMap<usize, MG> = HashMap::new();
    let mut rg: HashMap<usize, RG> = HashMap::new();
    let mut wg: HashMap<usize, WG> = HashMap::new();
    // pointers obtained with UnsafeCell::get / get_mut and kept in the frame: the access stays open until they are dropped
    let mut rptr: HashMap<String, loom::cell::ConstPtr<usize>> = HashMap::new();
    let mut wptr: HashMap<String, loom::cell::MutPtr<usize>> = HashMap::new();
    let armed = std::rc::Rc::new(std::cell::Cell::new(false));
    let mut aguards: Vec<AGuard> = Vec::new();
    let mut held_rx: HashMap<usize, loom::sync::mpsc::Receiver<usize>> = HashMap::new();
    let mut pc = 0usize;
    while pc < code.len() {
        let ins = &code[pc];
        let oi = || sh.idx[&ins.o];
        let mut next = pc + 1;
        let mut res: Option<i64> = None;
        match ins.op.as_str() {
            "ld" => res = Some(sh.atoms[oi()].get().load(ord(&ins.ord)) as i64),
            "st" => sh.atoms[oi()].get().store(ins.v as usize, ord(&ins.ord)),
            "rmw" => {
                let a = sh.atoms[oi()].get();
                let v = ins.v as usize;
                let o = ord(&ins.ord);
                let old = match ins.k.as_str() {
                    "swap" => a.swap(v, o),
                    "add" => a.fetch_add(v, o),
                    "sub" => a.fetch_sub(v, o),
                    "max" => a.fetch_max(v, o),
                    "min" => a.fetch_min(v, o),
                    k => panic!("harness: bad rmw kind {:?}", k),
                };
                res = Some(old as i64);
            }
            "cas" => {
                let a = sh.atoms[oi()].get();
                let r = a.compare_exchange(ins.v as usize, ins.w as usize, ord(&ins.ord), ord(&ins.ord2));
                res = Some(match r {
                    Ok(v) => v,
                    Err(v) => v,
                } as i64);
            }
            "await" => {
                let a = sh.atoms[oi()].get();
                let o = ord(&ins.ord);
                let want = ins.v as usize;
                let v = loop {
                    let v = a.load(o);
                    if (want == 0 && v != 0) || (want != 0 && v == want) {
                        break v;
                    }
                    if ins.k == "spin" {
                        loom::hint::spin_loop();
                    } else {
                        loom::thread::yield_now();
                    }
                };
                res = Some(v as i64);
            }
            "fence" => fence(ord(&ins.ord)),
            "wmut" if ins.k == "panic" => {
                armed.set(true);
                sh.atoms[oi()].get().with_mut(|_| panic!("verif-panic"))
            }
            // k = "unwind": the closure writes and then panics, the program catches the panic itself: the write has happened
            // (std: get_mut + assignment + panic), later operations see it
            "wmut" if ins.k == "unwind" => {
                let r = std::panic::catch_unwind(std::panic::AssertUnwindSafe(|| {
                    sh.atoms[oi()].get().with_mut(|p| {
                        *p = ins.v as usize;
                        std::panic::resume_unwind(Box::new("verif-caught"));
                    })
                }));
                assert!(r.is_err());
            }
            "wmut" => sh.atoms[oi()].get().with_mut(|p| *p = ins.v as usize),
            // k = "always": the guard touches its atomic in Drop on every path, an unwinding one included
            "aguard" if ins.k == "always" => aguards.push(AGuard { sh: sh.clone(), i: oi(), armed: std::rc::Rc::new(std::cell::Cell::new(true)) }),
            "aguard" => aguards.push(AGuard { sh: sh.clone(), i: oi(), armed: armed.clone() }),
            // the Receiver lives in this thread's frame between rxhold and rxrel (a value with a loom-aware Drop on the stack)
            "rxhold" => {
                let r = sh.rxs[oi()].get().take().expect("harness: rxhold without receiver");
                held_rx.insert(oi(), r);
            }
            "rxrel" => {
                let r = held_rx.remove(&oi()).expect("harness: rxrel of a receiver not held");
                *sh.rxs[oi()].get() = Some(r);
            }
            "uld" => res = Some(unsafe { sh.atoms[oi()].get().unsync_load() } as i64),
            "rd" if ins.k == "panic" => {
                armed.set(true);
                sh.cells[oi()].get().with(|_| panic!("verif-panic"))
            }
            "wr" if ins.k == "panic" => {
                armed.set(true);
                sh.cells[oi()].get().with_mut(|_| panic!("verif-panic"))
            }
            // k = "parkin": the NEXT instruction (a park) is executed inside the closure, i.e. the thread blocks while the
            // access is open (the pair is one interpreter step; C06 only)
            "rd" if ins.k == "parkin" => {
                sh.cells[oi()].get().with(|_| loom::thread::park());
                next = pc + 2;
            }
            "wr" if ins.k == "parkin" => {
                sh.cells[oi()].get().with_mut(|_| loom::thread::park());
                next = pc + 2;
            }
            "rd" if ins.k == "cell" => {
                let _ = sh.ccells[oi()].as_ref().expect("harness: no Cell").get().get();
            }
            "wr" if ins.k == "cell" => sh.ccells[oi()].as_ref().expect("harness: no Cell").get().set(ins.v as usize),
            "wr" if ins.k == "replace" => {
                let _ = sh.ccells[oi()].as_ref().expect("harness: no Cell").get().replace(ins.v as usize);
            }
            "wr" if ins.k == "take" => {
                let _ = sh.ccells[oi()].as_ref().expect("harness: no Cell").get().take();
            }
            "rd" => sh.cells[oi()].get().with(|_| ()),
            "wr" => sh.cells[oi()].get().with_mut(|_| ()),
            "rdhold" => {
                rptr.insert(ins.o.clone(), sh.cells[oi()].get().get());
            }
            "rdrel" => drop(rptr.remove(&ins.o).expect("harness: rdrel without rdhold")),
            "wrhold" => {
                wptr.insert(ins.o.clone(), sh.cells[oi()].get().get_mut());
            }
            "wrrel" => drop(wptr.remove(&ins.o).expect("harness: wrrel without wrhold")),
            // usage errors loom detects with an assertion (C06: must fail the model, not abort the process)
            "wrrd" => sh.cells[oi()].get().with_mut(|_| sh.cells[oi()].get().with(|_| ())),
            "rdwr" => sh.cells[oi()].get().with(|_| sh.cells[oi()].get().with_mut(|_| ())),
            "spawn" => {
                let u = ins.v as usize;
                let sh2 = sh.clone();
                // optional: move a handle into the closure (the `Arc` idiom of C05/C06)
                let owned: Option<(String, Slot)> = if ins.o.is_empty() {
                    None
                } else {
                    sh.handles.get().remove(&ins.o).map(|s| (ins.o.clone(), s))
                };
                // ... or the Receiver of channel o2, or the Track named k (values with a loom-aware Drop)
                let owned_rx = if ins.o2.is_empty() { None } else { let i = sh.idx[&ins.o2]; sh.rxs[i].get().take().map(|r| (i, r)) };
                let owned_trk = if ins.k.is_empty() { None } else { sh.trks.get().remove(&ins.k).map(|t| (ins.k.clone(), t)) };
                let body = move || {
                    if let Some((n, s)) = owned {
                        sh2.handles.get().insert(n, s);
                    }
                    if let Some((i, r)) = owned_rx {
                        *sh2.rxs[i].get() = Some(r);
                    }
                    if let Some((n, t)) = owned_trk {
                        sh2.trks.get().insert(n, t);
                    }
                    run_thread(sh2, u)
                };
                // ord = "builder": thread::Builder (name + stack size) instead of thread::spawn
                let h = if ins.ord == "builder" {
                    let b = AssertSend(body);     // Builder::spawn asks for Send, thread::spawn does not; one OS thread either way
                    loom::thread::Builder::new().name(format!("t{}", u)).stack_size(1 << 18).spawn(move || b.call()).unwrap()
                } else {
                    loom::thread::spawn(body)
                };
                sh.th.get().insert(u, h.thread().clone());
                sh.jh.get().insert(u, h);
            }
            "join" => {
                let h = sh.jh.get().remove(&(ins.v as usize)).expect("harness: join without handle");
                h.join().unwrap();
            }
            "yield" => loom::thread::yield_now(),
            "park" => loom::thread::park(),
            "unpark" => {
                let th = sh.th.get().get(&(ins.v as usize)).expect("harness: unpark unknown thread").clone();
                th.unpark();
            }
            "lock" => {
                let i = oi();
                let g = sh.mtxs[i].get().as_ref().unwrap().lock().unwrap();
                mg.insert(i, unsafe { std::mem::transmute::<_, MG>(g) });
            }
            "trylock" => {
                let i = oi();
                match sh.mtxs[i].get().as_ref().unwrap().try_lock() {
                    Ok(g) => {
                        mg.insert(i, unsafe { std::mem::transmute::<_, MG>(g) });
                        res = Some(1);
                    }
                    Err(_) => res = Some(0),
                }
            }
            "mset" => **mg.get_mut(&oi()).expect("harness: mset without guard") = ins.v as usize,
            "mget" => res = Some(**mg.get(&oi()).expect("harness: mget without guard") as i64),
            "mgetmut" => res = Some(*sh.mtxs[oi()].get().as_mut().unwrap().get_mut().unwrap() as i64),
            "minto" => res = Some(sh.mtxs[oi()].get().take().expect("harness: mutex already consumed").into_inner().unwrap() as i64),
            "rwset" => **wg.get_mut(&oi()).expect("harness: rwset without write guard") = ins.v as usize,
            "rwget" => {
                let i = oi();
                res = Some(if let Some(g) = wg.get(&i) { **g } else { **rg.get(&i).expect("harness: rwget without guard") } as i64);
            }
            "rwgetmut" => res = Some(*sh.rws[oi()].get().as_mut().unwrap().get_mut().unwrap() as i64),
            "rwinto" => res = Some(sh.rws[oi()].get().take().expect("harness: rwlock already consumed").into_inner().unwrap() as i64),
            "unlock" => {
                drop(mg.remove(&oi()).expect("harness: unlock without guard"));
            }
            "read" => {
                let i = oi();
                let g = sh.rws[i].get().as_ref().unwrap().read().unwrap();
                rg.insert(i, unsafe { std::mem::transmute::<_, RG>(g) });
            }
            "write" => {
                let i = oi();
                let g = sh.rws[i].get().as_ref().unwrap().write().unwrap();
                wg.insert(i, unsafe { std::mem::transmute::<_, WG>(g) });
            }
            "tryread" => {
                let i = oi();
                match sh.rws[i].get().as_ref().unwrap().try_read() {
                    Ok(g) => {
                        rg.insert(i, unsafe { std::mem::transmute::<_, RG>(g) });
                        res = Some(1);
                    }
                    Err(_) => res = Some(0),
                }
            }
            "trywrite" => {
                let i = oi();
                match sh.rws[i].get().as_ref().unwrap().try_write() {
                    Ok(g) => {
                        wg.insert(i, unsafe { std::mem::transmute::<_, WG>(g) });
                        res = Some(1);
                    }
                    Err(_) => res = Some(0),
                }
            }
            "unlockr" => drop(rg.remove(&oi()).expect("harness: unlockr without guard")),
            "unlockw" => drop(wg.remove(&oi()).expect("harness: unlockw without guard")),
            "cvwait" => {
                let m = sh.idx[&ins.o2];
                let g = mg.remove(&m).expect("harness: cvwait without guard");
                let g = sh.cvs[oi()].wait(g).unwrap();
                mg.insert(m, g);
            }
            "notify1" => sh.cvs[oi()].notify_one(),
            "notifyall" => sh.cvs[oi()].notify_all(),
            "nwait" => sh.ntfs[oi()].wait(),
            "notify" => sh.ntfs[oi()].notify(),
            "send" => {
                let tx = sh.txs[oi()].get().as_ref().unwrap().clone();
                let _ = tx.send(ins.v as usize);
            }
            "recv" => {
                let rx = sh.rxs[oi()].get().take().expect("harness: recv without receiver");
                let v = rx.recv().expect("harness: recv failed");
                *sh.rxs[oi()].get() = Some(rx);
                res = Some(v as i64);
            }
            "tryrecv" => {
                let rx = sh.rxs[oi()].get().take().expect("harness: try_recv without receiver");
                let v = rx.try_recv();
                *sh.rxs[oi()].get() = Some(rx);
                res = Some(match v {
                    Ok(v) => v as i64,
                    Err(_) => 0,
                });
            }
            "droprx" if ins.k == "unwind" => drop_by_caught_unwind(sh.rxs[oi()].get().take()),
            "droprx" => drop(sh.rxs[oi()].get().take()),
            "aclone" => {
                let s = sh.handles.get().remove(&ins.o).expect("harness: aclone of missing handle");
                let n = match &s {
                    Slot::Arc(a) => Slot::Arc(a.clone()),
                    Slot::Raw(p) => {
                        unsafe { loom::sync::Arc::increment_strong_count(*p) };
                        Slot::Raw(*p)
                    }
                };
                sh.handles.get().insert(ins.o.clone(), s);
                sh.handles.get().insert(ins.o2.clone(), n);
            }
            "adrop" => {
                let s = sh.handles.get().remove(&ins.o).expect("harness: adrop of missing handle");
                match s {
                    Slot::Arc(a) if ins.k == "unwind" => drop_by_caught_unwind(a),
                    Slot::Arc(a) => drop(a),
                    Slot::Raw(p) => unsafe { loom::sync::Arc::decrement_strong_count(p) },
                }
            }
            "ahold" => {
                let s = sh.handles.get().remove(&ins.o).expect("harness: ahold of missing handle");
                held.insert(ins.o.clone(), s);
            }
            "adropheld" => match held.remove(&ins.o).expect("harness: adropheld of a handle not held") {
                Slot::Arc(a) => drop(a),
                Slot::Raw(p) => unsafe { loom::sync::Arc::decrement_strong_count(p) },
            },
            "acount" => {
                let s = sh.handles.get().remove(&ins.o).expect("harness: acount of missing handle");
                if let Slot::Arc(a) = &s {
                    res = Some(loom::sync::Arc::strong_count(a) as i64);
                } else {
                    panic!("harness: acount of raw handle");
                }
                sh.handles.get().insert(ins.o.clone(), s);
            }
            "agetmut" => {
                let mut s = sh.handles.get().remove(&ins.o).expect("harness: agetmut of missing handle");
                if let Slot::Arc(a) = &mut s {
                    res = Some(loom::sync::Arc::get_mut(a).is_some() as i64);
                } else {
                    panic!("harness: agetmut of raw handle");
                }
                sh.handles.get().insert(ins.o.clone(), s);
            }
            "aunwrap" => {
                let s = sh.handles.get().remove(&ins.o).expect("harness: aunwrap of missing handle");
                if let Slot::Arc(a) = s {
                    match loom::sync::Arc::try_unwrap(a) {
                        Ok(p) => {
                            drop(p);
                            res = Some(1);
                        }
                        Err(a) => {
                            sh.handles.get().insert(ins.o.clone(), Slot::Arc(a));
                            res = Some(0);
                        }
                    }
                } else {
                    panic!("harness: aunwrap of raw handle");
                }
            }
            "aintoraw" => {
                let s = sh.handles.get().remove(&ins.o).expect("harness: aintoraw of missing handle");
                let n = match s {
                    Slot::Arc(a) => Slot::Raw(loom::sync::Arc::into_raw(a)),
                    r => r,
                };
                sh.handles.get().insert(ins.o.clone(), n);
            }
            "afromraw" => {
                let s = sh.handles.get().remove(&ins.o).expect("harness: afromraw of missing handle");
                let n = match s {
                    Slot::Raw(p) => Slot::Arc(unsafe { loom::sync::Arc::from_raw(p) }),
                    a => a,
                };
                sh.handles.get().insert(ins.o.clone(), n);
            }
            "aptreq" => {
                let hs = sh.handles.get();
                let r = match (hs.get(&ins.o), hs.get(&ins.o2)) {
                    (Some(Slot::Arc(a)), Some(Slot::Arc(b))) => loom::sync::Arc::ptr_eq(a, b),
                    _ => panic!("harness: aptreq needs two live handles"),
                };
                res = Some(r as i64);
            }
            "tnew" => {
                let tr = loom::alloc::Track::new(());
                sh.trks.get().insert(ins.o.clone(), tr);
            }
            // k = "unwind": the value is dropped by the unwinding of a panic the program catches itself
            "tdrop" if ins.k == "unwind" => {
                let tr = sh.trks.get().remove(&ins.o);
                drop_by_caught_unwind(tr);
            }
            "tdrop" => drop(sh.trks.get().remove(&ins.o)),
            "tforget" => std::mem::forget(sh.trks.get().remove(&ins.o)),
            "tlwith" => res = Some(tl_bump(&ins.o) as i64),
            // the place of the value's destructor in the program text (it runs when the thread ends, right after its last instruction)
            "tlexit" => {}
            // the thread really uses ins.v KiB of its stack (threads created through thread::Builder ask for a large one)
            "stack" => {
                std::hint::black_box(burn_stack(ins.v as usize));
            }
            "tlnest" => res = Some(tl_nest(&ins.o, &ins.o2) as i64),
            "lzget" => {
                LZ_MODE.with(|m| *m.borrow_mut() = if ins.k == "rmw" { "rmw".into() } else { "yield".into() });
                let v = lz_ref(&ins.o);
                lzrefs.insert(ins.o.clone(), v);
                res = Some(v.id as i64);
            }
            // read the instance's own cell through the reference the last lzget returned
            "lzread" => lzrefs.get(&ins.o).expect("harness: lzread without lzget").own.get().with(|_| ()),
            "blockon" if ins.k == "raw" => {
                let polls = SArc::new(StdAtomicUsize::new(0));
                let f = RawFut {
                    sh: sh.clone(),
                    s1: oi(),
                    s2: if ins.ord2.is_empty() { None } else { Some(sh.idx[&ins.ord2]) },
                    f1: sh.idx[&ins.o2],
                    f2: if ins.w != 0 { Some(sh.idx[&format!("{}2", ins.o2)]) } else { None },
                    ready: sh.idx[&format!("{}r", ins.o2)],
                    ord: ord(&ins.ord),
                    polls: polls.clone(),
                    want: ins.v as usize,
                };
                let v = loom::future::block_on(f);
                res = Some((v * 100 + polls.load(StdOrd::SeqCst)) as i64);
            }
            "wakeslot" => {
                let w = sh.slots[oi()].lock().unwrap().take();
                if let Some(w) = w {
                    w.wake();
                }
            }
            "wakeref" => {
                let w = sh.slots[oi()].lock().unwrap().take();
                if let Some(w) = w {
                    w.wake_by_ref();
                    let old = {
                        let mut g = sh.slots[oi()].lock().unwrap();
                        if g.is_none() { *g = Some(w); None } else { Some(w) }
                    };
                    drop(old);
                }
            }
            "blockon" => {
                let polls = SArc::new(StdAtomicUsize::new(0));
                let f = Fut { sh: sh.clone(), aw: oi(), flag: sh.idx[&ins.o2], ord: ord(&ins.ord), reg_first: ins.k == "reg-check", polls: polls.clone(), want: ins.v as usize };
                let v = loom::future::block_on(f);
                res = Some((v * 100 + polls.load(StdOrd::SeqCst)) as i64);
            }
            "wake" => sh.aws[oi()].wake(),
            "br" => {
                if regs[ins.r - 1] != ins.v {
                    next = pc + 1 + ins.w as usize;
                }
            }
            "panic" => {
                armed.set(true);
                panic!("verif-panic")
            }
            "stopx" => loom::stop_exploring(),
            "explore" => loom::explore(),
            "skipb" => loom::skip_branch(),
            "nop" => {}
            o => panic!("harness: unknown op {:?}", o),
        }
        log(t, pc, res);
        if let Some(v) = res {
            regs.push(v);
        }
        pc = next;
    }
    drop(rptr);
    drop(wptr);
    drop(aguards);
    for (i, r) in held_rx.drain() {
        *sh.rxs[i].get() = Some(r);
    }
    drop(wg);
    drop(rg);
    drop(mg);
    for (_, s) in held.drain() {
        std::mem::forget(s);      // not released by the program: leaked, as everything else
    }
}
