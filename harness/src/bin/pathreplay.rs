//! pathreplay <behaviours.ndjson> <out.json>
//! Replays behaviours of ExploreMC.tla into the real rt::Path (loom::verif::PathDriver), comparing
//! every return value and, after every step, the whole branch stack; the path goes through a serde
//! round trip after every step (checkpoint store + load) and the replay continues on the copy.
use loom::verif::PathDriver;
use serde_json::{json, Value};
use std::io::{BufRead, Write};
use std::panic::{catch_unwind, AssertUnwindSafe};

fn code(s: &str) -> u8 {
    match s {
        "Disabled" => 0,
        "Skip" => 1,
        "Yield" => 2,
        "Pending" => 3,
        "Active" => 4,
        _ => 5,
    }
}

/// serde_json of rt::Path -> the entry list of Explore.tla
fn canon(snapshot: &str) -> Value {
    let d: Value = serde_json::from_str(snapshot).unwrap();
    let mut br = vec![];
    for e in d["branches"]["entries"].as_array().unwrap() {
        if let Some(s) = e.get("Schedule") {
            br.push(json!({"k": "S", "th": s["threads"], "pre": s["preemptions"],
                "ia": if s["initial_active"].is_null() { json!(0) } else { json!(s["initial_active"].as_u64().unwrap() + 1) },
                "prev": if s["prev"].is_null() { json!(0) } else { json!(s["prev"]["index"].as_u64().unwrap() + 1) },
                "ex": s["exploring"]}));
        } else if let Some(s) = e.get("Load") {
            let len = s["len"].as_u64().unwrap() as usize;
            let vals: Vec<Value> = s["values"].as_array().unwrap()[..len].to_vec();
            br.push(json!({"k": "L", "vals": vals, "pos": s["pos"], "ex": s["exploring"]}));
        } else {
            let s = &e["Spurious"];
            br.push(json!({"k": "P", "spur": s["spur"], "ex": s["exploring"]}));
        }
    }
    Value::Array(br)
}

fn panic_class(e: Box<dyn std::any::Any + Send>) -> String {
    let msg = if let Some(s) = e.downcast_ref::<String>() { s.clone() } else if let Some(s) = e.downcast_ref::<&str>() { s.to_string() } else { String::new() };
    if msg.starts_with("Model exceeded maximum number of branches") { "branches".into() }
    else if msg.starts_with("Reached unexpected exploration state") { "nondeterministic".into() }
    else { format!("other:{}", msg.chars().take(80).collect::<String>()) }
}

fn main() {
    let args: Vec<String> = std::env::args().collect();
    std::panic::set_hook(Box::new(|_| {}));
    let f = std::io::BufReader::new(std::fs::File::open(&args[1]).unwrap());
    let roundtrip = !args.iter().any(|a| a == "--no-roundtrip");
    let (mut nb, mut na, mut nsteps) = (0usize, 0usize, 0usize);
    let mut mismatches: Vec<Value> = vec![];
    for (lineno, line) in f.lines().enumerate() {
        let line = line.unwrap();
        if line.trim().is_empty() { continue; }
        let log: Vec<Value> = serde_json::from_str(&line).unwrap();
        nb += 1;
        let mut d: Option<PathDriver> = None;
        let mut maxb = 0usize;
        for (k, a) in log.iter().enumerate() {
            na += 1;
            let mut bad: Option<Value> = None;
            match a["a"].as_str().unwrap() {
                "new" => {
                    maxb = a["maxb"].as_u64().unwrap() as usize;
                    let b = a["bound"].as_i64().unwrap();
                    d = Some(PathDriver::new(maxb, if b < 0 { None } else { Some(b as u8) }, a["exploring"].as_bool().unwrap()));
                }
                // a panic of the code under test is data (a mismatch), not a failure of the replayer
                "critical" | "explore" | "skip" | "backtrack" => {
                    let dd = d.as_mut().unwrap();
                    let r = catch_unwind(AssertUnwindSafe(|| match a["a"].as_str().unwrap() {
                        "critical" => dd.critical(),
                        "explore" => dd.explore_state(),
                        "skip" => dd.skip_branch(),
                        _ => dd.backtrack(a["point"].as_u64().unwrap() as usize, a["thread"].as_u64().unwrap() as usize),
                    }));
                    if let Err(e) = r {
                        bad = Some(json!({"impl_err": format!("panic: {}", panic_class(e))}));
                    }
                }
                "thread" => {
                    let seed: Vec<u8> = a["seed"].as_array().unwrap().iter().map(|s| code(s.as_str().unwrap())).collect();
                    let dd = d.as_mut().unwrap();
                    let r = catch_unwind(AssertUnwindSafe(|| dd.branch_thread(&seed)));
                    let (ret, err) = match r { Ok(v) => (v.map(|x| x as i64).unwrap_or(-1), String::new()), Err(e) => (-1, panic_class(e)) };
                    if err != a["err"].as_str().unwrap() || (err.is_empty() && ret != a["ret"].as_i64().unwrap()) {
                        bad = Some(json!({"impl_ret": ret, "impl_err": err}));
                    }
                }
                "load" => {
                    let n = a["n"].as_u64().unwrap() as u8;
                    let seed: Vec<u8> = (0..n).collect();
                    let dd = d.as_mut().unwrap();
                    let r = catch_unwind(AssertUnwindSafe(|| dd.load(&seed)));
                    let (ret, err) = match r { Ok(v) => (v as i64, String::new()), Err(e) => (-1, panic_class(e)) };
                    if err != a["err"].as_str().unwrap() || (err.is_empty() && ret != a["ret"].as_i64().unwrap()) {
                        bad = Some(json!({"impl_ret": ret, "impl_err": err}));
                    }
                }
                "spurious" => {
                    let dd = d.as_mut().unwrap();
                    let r = catch_unwind(AssertUnwindSafe(|| dd.spurious()));
                    let (ret, err) = match r { Ok(v) => (v, String::new()), Err(e) => (false, panic_class(e)) };
                    if err != a["err"].as_str().unwrap() || (err.is_empty() && ret != a["ret"].as_bool().unwrap()) {
                        bad = Some(json!({"impl_ret": ret, "impl_err": err}));
                    }
                }
                "step" => {
                    nsteps += 1;
                    let dd = d.as_mut().unwrap();
                    let ok = match catch_unwind(AssertUnwindSafe(|| dd.step())) {
                        Ok(v) => v,
                        Err(e) => {
                            mismatches.push(json!({"behaviour": lineno, "action_index": k, "action": a, "impl": {"impl_err": format!("panic: {}", panic_class(e))}}));
                            break;
                        }
                    };
                    if ok != a["ret"].as_bool().unwrap() {
                        bad = Some(json!({"impl_ret": ok}));
                    } else if ok {
                        if roundtrip { dd.roundtrip(maxb); }
                        let snap = canon(&dd.snapshot());
                        if snap != a["snapshot"] {
                            bad = Some(json!({"impl_snapshot": snap}));
                        }
                    }
                }
                x => panic!("unknown action {}", x),
            }
            if let Some(b) = bad {
                if mismatches.len() < 20 {
                    mismatches.push(json!({"behaviour": lineno + 1, "action_index": k, "action": a, "impl": b, "log": log}));
                } else {
                    mismatches.push(json!({"behaviour": lineno + 1, "action_index": k}));
                }
                break;
            }
        }
    }
    let out = json!({"behaviours": nb, "actions": na, "steps": nsteps, "mismatches": mismatches.len(), "first": mismatches.iter().take(20).collect::<Vec<_>>()});
    std::fs::File::create(&args[2]).unwrap().write_all(out.to_string().as_bytes()).unwrap();
}
