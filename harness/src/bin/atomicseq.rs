//! atomicseq <sequences.json> <out.json>
//! Replays operation sequences whose expected results come from AtomicSeq.tla (TLC) on
//! loom::sync::atomic::* (inside a single-threaded model) and on std::sync::atomic::*.
use serde::Deserialize;
use serde_json::json;
use std::io::Write;
use std::sync::atomic::Ordering::{self, *};

#[derive(Deserialize, Clone)]
struct Op {
    op: String,
    #[serde(default)]
    f: String,
    a: Vec<u64>,
    b: Vec<u64>,
    r: Vec<u64>,
    ok: i64,
    n: Vec<u64>,
}
#[derive(Deserialize, Clone)]
struct Seq {
    t: String,
    init: Vec<u64>,
    ops: Vec<Op>,
}

fn bits(l: &[u64]) -> u64 {
    l.iter().enumerate().fold(0u64, |acc, (i, b)| acc | (b << (8 * i)))
}

/// what one operation produced: (returned bits or None, ok shape, value afterwards)
type Obs = (Option<u64>, i64, u64);

const LD: [Ordering; 3] = [Relaxed, Acquire, SeqCst];
const ST: [Ordering; 3] = [Relaxed, Release, SeqCst];
const RMW: [Ordering; 5] = [Relaxed, Acquire, Release, AcqRel, SeqCst];
// every valid (success, failure) pair: since Rust 1.64 the failure ordering may be stronger than the success ordering
const CAS: [(Ordering, Ordering); 15] = [(Relaxed, Relaxed), (Acquire, Relaxed), (Acquire, Acquire), (Release, Relaxed), (AcqRel, Relaxed),
    (AcqRel, Acquire), (SeqCst, Relaxed), (SeqCst, Acquire), (SeqCst, SeqCst), (Relaxed, Acquire), (Relaxed, SeqCst), (Release, Acquire),
    (Release, SeqCst), (Acquire, SeqCst), (AcqRel, SeqCst)];

macro_rules! int_runner {
    ($fname:ident, $atomic:ty, $t:ty, $mask:expr) => {
        #[allow(deprecated)]
        fn $fname(init: u64, ops: &[Op], k0: usize) -> (Vec<Obs>, u64) {
            let m: u64 = $mask;
            let to = |b: u64| -> $t { b as $t };
            let fr = |v: $t| -> u64 { (v as u64) & m };
            let mut a = <$atomic>::new(to(init));
            let mut out = Vec::with_capacity(ops.len());
            for (i, o) in ops.iter().enumerate() {
                let k = k0 + i;
                let x = to(bits(&o.a));
                let y = to(bits(&o.b));
                let (ret, ok): (Option<u64>, i64) = match o.op.as_str() {
                    "load" => (Some(fr(a.load(LD[k % 3]))), -1),
                    "unsync_load" => (Some(fr(unsync!($atomic, a))), -1),
                    "store" => { a.store(x, ST[k % 3]); (None, -1) }
                    "with_mut" => { withmut!($atomic, a, x); (None, -1) }
                    "swap" => (Some(fr(a.swap(x, RMW[k % 5]))), -1),
                    "compare_exchange" => match a.compare_exchange(x, y, CAS[k % 15].0, CAS[k % 15].1) { Ok(v) => (Some(fr(v)), 1), Err(v) => (Some(fr(v)), 0) },
                    "compare_exchange_weak" => match a.compare_exchange_weak(x, y, CAS[k % 15].0, CAS[k % 15].1) { Ok(v) => (Some(fr(v)), 1), Err(v) => (Some(fr(v)), 0) },
                    "compare_and_swap" => (Some(fr(a.compare_and_swap(x, y, RMW[k % 5]))), -1),
                    "fetch_add" => (Some(fr(a.fetch_add(x, RMW[k % 5]))), -1),
                    "fetch_sub" => (Some(fr(a.fetch_sub(x, RMW[k % 5]))), -1),
                    "fetch_and" => (Some(fr(a.fetch_and(x, RMW[k % 5]))), -1),
                    "fetch_nand" => (Some(fr(a.fetch_nand(x, RMW[k % 5]))), -1),
                    "fetch_or" => (Some(fr(a.fetch_or(x, RMW[k % 5]))), -1),
                    "fetch_xor" => (Some(fr(a.fetch_xor(x, RMW[k % 5]))), -1),
                    "fetch_max" => (Some(fr(a.fetch_max(x, RMW[k % 5]))), -1),
                    "fetch_min" => (Some(fr(a.fetch_min(x, RMW[k % 5]))), -1),
                    "fetch_update" => {
                        let f = o.f.clone();
                        let r = a.fetch_update(CAS[k % 15].0, CAS[k % 15].1, |v| match f.as_str() {
                            "inc" => Some(v.wrapping_add(1)),
                            "none" => None,
                            "zero" => Some(0),
                            _ => if v & 1 == 1 { Some(v ^ 1) } else { None },
                        });
                        match r { Ok(v) => (Some(fr(v)), 1), Err(v) => (Some(fr(v)), 0) }
                    }
                    x => panic!("atomicseq: op {} not supported for this type", x),
                };
                let after = fr(a.load(SeqCst));
                out.push((ret, ok, after));
            }
            let fin = fr(a.into_inner());
            (out, fin)
        }
    };
}

macro_rules! unsync { ($atomic:ty, $a:ident) => { <$atomic as Unsync>::ul(&$a) }; }
macro_rules! withmut { ($atomic:ty, $a:ident, $x:expr) => { <$atomic as Unsync>::wm(&mut $a, $x) }; }

trait Unsync { type V; fn ul(&self) -> Self::V; fn wm(&mut self, v: Self::V); }
macro_rules! impl_unsync_std { ($($a:ty, $t:ty);*) => { $( impl Unsync for $a { type V = $t; fn ul(&self) -> $t { self.load(Relaxed) } fn wm(&mut self, v: $t) { *self.get_mut() = v; } } )* }; }
macro_rules! impl_unsync_loom { ($($a:ty, $t:ty);*) => { $( impl Unsync for $a { type V = $t; fn ul(&self) -> $t { unsafe { self.unsync_load() } } fn wm(&mut self, v: $t) { self.with_mut(|p| *p = v) } } )* }; }
use loom::sync::atomic as la;
use std::sync::atomic as sa;
impl_unsync_std!(sa::AtomicU8, u8; sa::AtomicI8, i8; sa::AtomicU16, u16; sa::AtomicI16, i16; sa::AtomicU32, u32; sa::AtomicI32, i32;
    sa::AtomicU64, u64; sa::AtomicI64, i64; sa::AtomicUsize, usize; sa::AtomicIsize, isize);
impl_unsync_loom!(la::AtomicU8, u8; la::AtomicI8, i8; la::AtomicU16, u16; la::AtomicI16, i16; la::AtomicU32, u32; la::AtomicI32, i32;
    la::AtomicU64, u64; la::AtomicI64, i64; la::AtomicUsize, usize; la::AtomicIsize, isize);

int_runner!(s_u8, sa::AtomicU8, u8, 0xff); int_runner!(l_u8, la::AtomicU8, u8, 0xff);
int_runner!(s_i8, sa::AtomicI8, i8, 0xff); int_runner!(l_i8, la::AtomicI8, i8, 0xff);
int_runner!(s_u16, sa::AtomicU16, u16, 0xffff); int_runner!(l_u16, la::AtomicU16, u16, 0xffff);
int_runner!(s_i16, sa::AtomicI16, i16, 0xffff); int_runner!(l_i16, la::AtomicI16, i16, 0xffff);
int_runner!(s_u32, sa::AtomicU32, u32, 0xffff_ffff); int_runner!(l_u32, la::AtomicU32, u32, 0xffff_ffff);
int_runner!(s_i32, sa::AtomicI32, i32, 0xffff_ffff); int_runner!(l_i32, la::AtomicI32, i32, 0xffff_ffff);
int_runner!(s_u64, sa::AtomicU64, u64, u64::MAX); int_runner!(l_u64, la::AtomicU64, u64, u64::MAX);
int_runner!(s_i64, sa::AtomicI64, i64, u64::MAX); int_runner!(l_i64, la::AtomicI64, i64, u64::MAX);
int_runner!(s_usize, sa::AtomicUsize, usize, u64::MAX); int_runner!(l_usize, la::AtomicUsize, usize, u64::MAX);
int_runner!(s_isize, sa::AtomicIsize, isize, u64::MAX); int_runner!(l_isize, la::AtomicIsize, isize, u64::MAX);

macro_rules! bool_runner {
    ($fname:ident, $atomic:ty, $ul:expr) => {
        #[allow(deprecated)]
        fn $fname(init: u64, ops: &[Op], k0: usize) -> (Vec<Obs>, u64) {
            let a = <$atomic>::new(init != 0);
            let fr = |v: bool| -> u64 { v as u64 };
            let mut out = vec![];
            for (i, o) in ops.iter().enumerate() {
                let k = k0 + i;
                let x = bits(&o.a) != 0;
                let y = bits(&o.b) != 0;
                let (ret, ok): (Option<u64>, i64) = match o.op.as_str() {
                    "load" => (Some(fr(a.load(LD[k % 3]))), -1),
                    "unsync_load" => (Some(fr($ul(&a))), -1),
                    "store" => { a.store(x, ST[k % 3]); (None, -1) }
                    "swap" => (Some(fr(a.swap(x, RMW[k % 5]))), -1),
                    "compare_exchange" => match a.compare_exchange(x, y, CAS[k % 15].0, CAS[k % 15].1) { Ok(v) => (Some(fr(v)), 1), Err(v) => (Some(fr(v)), 0) },
                    "compare_exchange_weak" => match a.compare_exchange_weak(x, y, CAS[k % 15].0, CAS[k % 15].1) { Ok(v) => (Some(fr(v)), 1), Err(v) => (Some(fr(v)), 0) },
                    "compare_and_swap" => (Some(fr(a.compare_and_swap(x, y, RMW[k % 5]))), -1),
                    "fetch_and" => (Some(fr(a.fetch_and(x, RMW[k % 5]))), -1),
                    "fetch_nand" => (Some(fr(a.fetch_nand(x, RMW[k % 5]))), -1),
                    "fetch_or" => (Some(fr(a.fetch_or(x, RMW[k % 5]))), -1),
                    "fetch_xor" => (Some(fr(a.fetch_xor(x, RMW[k % 5]))), -1),
                    "fetch_update" => {
                        let f = o.f.clone();
                        let r = a.fetch_update(CAS[k % 15].0, CAS[k % 15].1, |v| match f.as_str() {
                            "inc" => Some(!v), "none" => None, "zero" => Some(false), _ => if v { Some(false) } else { None } });
                        match r { Ok(v) => (Some(fr(v)), 1), Err(v) => (Some(fr(v)), 0) }
                    }
                    x => panic!("atomicseq: op {} not supported for bool", x),
                };
                out.push((ret, ok, fr(a.load(SeqCst))));
            }
            let fin = fr(a.into_inner());
            (out, fin)
        }
    };
}
bool_runner!(s_bool, sa::AtomicBool, |a: &sa::AtomicBool| a.load(Relaxed));
bool_runner!(l_bool, la::AtomicBool, |a: &la::AtomicBool| unsafe { a.unsync_load() });

macro_rules! ptr_runner {
    ($fname:ident, $atomic:ty, $ul:expr, $wm:expr) => {
        #[allow(deprecated)]
        fn $fname(init: u64, ops: &[Op], k0: usize) -> (Vec<Obs>, u64) {
            let to = |b: u64| -> *mut u8 { b as usize as *mut u8 };
            let fr = |v: *mut u8| -> u64 { v as usize as u64 };
            let mut a = <$atomic>::new(to(init));
            let mut out = vec![];
            for (i, o) in ops.iter().enumerate() {
                let k = k0 + i;
                let x = to(bits(&o.a));
                let y = to(bits(&o.b));
                let (ret, ok): (Option<u64>, i64) = match o.op.as_str() {
                    "load" => (Some(fr(a.load(LD[k % 3]))), -1),
                    "unsync_load" => (Some(fr($ul(&a))), -1),
                    "store" => { a.store(x, ST[k % 3]); (None, -1) }
                    "with_mut" => { $wm(&mut a, x); (None, -1) }
                    "swap" => (Some(fr(a.swap(x, RMW[k % 5]))), -1),
                    "compare_exchange" => match a.compare_exchange(x, y, CAS[k % 15].0, CAS[k % 15].1) { Ok(v) => (Some(fr(v)), 1), Err(v) => (Some(fr(v)), 0) },
                    "compare_exchange_weak" => match a.compare_exchange_weak(x, y, CAS[k % 15].0, CAS[k % 15].1) { Ok(v) => (Some(fr(v)), 1), Err(v) => (Some(fr(v)), 0) },
                    "compare_and_swap" => (Some(fr(a.compare_and_swap(x, y, RMW[k % 5]))), -1),
                    "fetch_update" => {
                        let f = o.f.clone();
                        let r = a.fetch_update(CAS[k % 15].0, CAS[k % 15].1, |v| { let b = v as usize; match f.as_str() {
                            "inc" => Some(b.wrapping_add(1) as *mut u8), "none" => None, "zero" => Some(std::ptr::null_mut()),
                            _ => if b & 1 == 1 { Some((b ^ 1) as *mut u8) } else { None } } });
                        match r { Ok(v) => (Some(fr(v)), 1), Err(v) => (Some(fr(v)), 0) }
                    }
                    x => panic!("atomicseq: op {} not supported for ptr", x),
                };
                out.push((ret, ok, fr(a.load(SeqCst))));
            }
            let fin = fr(a.into_inner());
            (out, fin)
        }
    };
}
ptr_runner!(s_ptr, sa::AtomicPtr<u8>, |a: &sa::AtomicPtr<u8>| a.load(Relaxed), |a: &mut sa::AtomicPtr<u8>, x| *a.get_mut() = x);
ptr_runner!(l_ptr, la::AtomicPtr<u8>, |a: &la::AtomicPtr<u8>| unsafe { a.unsync_load() }, |a: &mut la::AtomicPtr<u8>, x| a.with_mut(|p| *p = x));

fn run(which: &str, t: &str, init: u64, ops: &[Op], k0: usize) -> (Vec<Obs>, u64) {
    match (which, t) {
        ("std", "u8") => s_u8(init, ops, k0), ("loom", "u8") => l_u8(init, ops, k0),
        ("std", "i8") => s_i8(init, ops, k0), ("loom", "i8") => l_i8(init, ops, k0),
        ("std", "u16") => s_u16(init, ops, k0), ("loom", "u16") => l_u16(init, ops, k0),
        ("std", "i16") => s_i16(init, ops, k0), ("loom", "i16") => l_i16(init, ops, k0),
        ("std", "u32") => s_u32(init, ops, k0), ("loom", "u32") => l_u32(init, ops, k0),
        ("std", "i32") => s_i32(init, ops, k0), ("loom", "i32") => l_i32(init, ops, k0),
        ("std", "u64") => s_u64(init, ops, k0), ("loom", "u64") => l_u64(init, ops, k0),
        ("std", "i64") => s_i64(init, ops, k0), ("loom", "i64") => l_i64(init, ops, k0),
        ("std", "usize") => s_usize(init, ops, k0), ("loom", "usize") => l_usize(init, ops, k0),
        ("std", "isize") => s_isize(init, ops, k0), ("loom", "isize") => l_isize(init, ops, k0),
        ("std", "bool") => s_bool(init, ops, k0), ("loom", "bool") => l_bool(init, ops, k0),
        ("std", "ptr") => s_ptr(init, ops, k0), ("loom", "ptr") => l_ptr(init, ops, k0),
        _ => panic!("atomicseq: unknown type {}", t),
    }
}

fn main() {
    let args: Vec<String> = std::env::args().collect();
    let seqs: Vec<Seq> = serde_json::from_str(&std::fs::read_to_string(&args[1]).unwrap()).unwrap();
    let seqs = std::sync::Arc::new(seqs);
    let mut mism = vec![];
    let (mut nops, mut nseq) = (0usize, 0usize);
    // std, directly
    let mut std_obs = vec![];
    for (i, s) in seqs.iter().enumerate() {
        std_obs.push(run("std", &s.t, bits(&s.init), &s.ops, i));
    }
    // loom: batches of sequences inside single-threaded models
    let loom_obs = std::sync::Arc::new(std::sync::Mutex::new(vec![None; seqs.len()]));
    let batch = 40usize;
    let mut start = 0;
    while start < seqs.len() {
        let end = (start + batch).min(seqs.len());
        let (s2, o2) = (seqs.clone(), loom_obs.clone());
        let mut b = loom::model::Builder::new();
        b.max_branches = 100_000;
        let iters = std::sync::Arc::new(std::sync::atomic::AtomicUsize::new(0));
        let it2 = iters.clone();
        // a panic of the code under test is data: the batch is reported, its sequences are not compared
        let res = std::panic::catch_unwind(std::panic::AssertUnwindSafe(move || {
            b.check(move || {
                it2.fetch_add(1, SeqCst);
                for i in start..end {
                    let s = &s2[i];
                    let r = run("loom", &s.t, bits(&s.init), &s.ops, i);
                    o2.lock().unwrap_or_else(|e| e.into_inner())[i] = Some(r);
                }
            })
        }));
        if let Err(e) = res {
            let msg = e.downcast_ref::<String>().cloned().or_else(|| e.downcast_ref::<&str>().map(|s| s.to_string())).unwrap_or_default();
            let done = loom_obs.lock().unwrap_or_else(|e| e.into_inner()).iter().skip(start).take(end - start).filter(|o| o.is_some()).count();
            let s = &seqs[(start + done).min(end - 1)];
            mism.push(json!({"seq": start + done, "which": "loom", "type": s.t, "op": s.ops.iter().map(|o| o.op.clone()).collect::<Vec<_>>().join(","),
                "what": format!("loom panicked: {}", msg.chars().take(200).collect::<String>())}));
        } else if iters.load(SeqCst) != 1 {
            mism.push(json!({"seq": start, "which": "loom", "what": "single-threaded model ran more than one iteration", "iters": iters.load(SeqCst)}));
        }
        start = end;
    }
    let loom_obs = loom_obs.lock().unwrap_or_else(|e| e.into_inner());
    for (i, s) in seqs.iter().enumerate() {
        nseq += 1;
        let mut sides = vec![("std", &std_obs[i])];
        if let Some(o) = loom_obs[i].as_ref() {
            sides.push(("loom", o));
        }
        for (which, (obs, fin)) in sides {
            for (j, o) in s.ops.iter().enumerate() {
                nops += 1;
                let exp_r = if o.r.is_empty() { None } else { Some(bits(&o.r)) };
                let exp = (exp_r, o.ok, bits(&o.n));
                if obs[j] != exp && mism.len() < 200 {
                    mism.push(json!({"seq": i, "op_index": j, "which": which, "type": s.t, "op": o.op, "f": o.f, "a": bits(&o.a), "b": bits(&o.b),
                        "before": if j == 0 { bits(&s.init) } else { bits(&s.ops[j - 1].n) },
                        "expected": {"ret": exp.0, "ok": exp.1, "after": exp.2}, "got": {"ret": obs[j].0, "ok": obs[j].1, "after": obs[j].2}}));
                }
            }
            let last = s.ops.last().map(|o| bits(&o.n)).unwrap_or(bits(&s.init));
            if *fin != last && mism.len() < 200 {
                mism.push(json!({"seq": i, "which": which, "type": s.t, "op": "into_inner", "expected": last, "got": fin}));
            }
        }
    }
    let out = json!({"sequences": nseq, "ops_checked": nops, "mismatches": mism});
    std::fs::File::create(&args[2]).unwrap().write_all(out.to_string().as_bytes()).unwrap();
}
