//! driver <programs.json> <out.ndjson> [--start K] [--only K]
//!
//! programs.json: [{"prog": {...}, "cfg": {...}}, ...]
//! Writes one line `{"i": K, "start": true}` before and one result line after
//! each program, flushed, so that the parent can attribute an abort.
use loomverif::interp::Prog;
use loomverif::run::{run_program, Cfg};
use serde::Deserialize;
use std::io::Write;

#[derive(Deserialize)]
struct Item {
    prog: Prog,
    #[serde(default)]
    cfg: Cfg,
}

fn main() {
    let args: Vec<String> = std::env::args().collect();
    let items: Vec<Item> = serde_json::from_str(&std::fs::read_to_string(&args[1]).unwrap()).unwrap();
    let mut start = 0usize;
    let mut only: Option<usize> = None;
    let mut stride = 1usize;
    let mut offset = 0usize;
    let mut group = 1usize;       // items are sharded in consecutive groups of this size
    let mut pairs = false;        // run each group of two items concurrently on two OS threads
    let mut i = 3;
    while i < args.len() {
        match args[i].as_str() {
            "--start" => { start = args[i + 1].parse().unwrap(); i += 2; }
            "--only" => { only = Some(args[i + 1].parse().unwrap()); i += 2; }
            "--stride" => { stride = args[i + 1].parse().unwrap(); i += 2; }
            "--offset" => { offset = args[i + 1].parse().unwrap(); i += 2; }
            "--group" => { group = args[i + 1].parse().unwrap(); i += 2; }
            "--pairs" => { pairs = true; group = 2; i += 1; }
            _ => panic!("bad arg"),
        }
    }
    if std::env::var("VERIF_VERBOSE").is_err() {
        std::panic::set_hook(Box::new(|_| {}));
    }
    let mut out = std::fs::OpenOptions::new().create(true).append(true).open(&args[2]).unwrap();
    {
        let path = args[2].clone();
        *loomverif::run::BEAT.lock().unwrap() = Some(Box::new(move |n| {
            if let Ok(mut f) = std::fs::OpenOptions::new().append(true).open(&path) {
                let _ = writeln!(f, "{{\"beat\":{}}}", n);
            }
        }));
    }
    if pairs {
        let items = std::sync::Arc::new(items);
        let mut k = 0;
        while k + 1 < items.len() {
            if k >= start && (k / 2) % stride == offset {
                writeln!(out, "{{\"i\":{},\"start\":true}}", k).unwrap();
                out.flush().unwrap();
                let (a, b) = (items.clone(), items.clone());
                let ha = std::thread::spawn(move || run_program(&a[k].prog, &a[k].cfg));
                let hb = std::thread::spawn(move || run_program(&b[k + 1].prog, &b[k + 1].cfg));
                for (j, h) in [(k, ha), (k + 1, hb)] {
                    let r = h.join().expect("driver: model thread died");
                    let mut v = serde_json::to_value(&r).unwrap();
                    v["i"] = j.into();
                    v["ms"] = 0.into();
                    writeln!(out, "{}", v).unwrap();
                }
                out.flush().unwrap();
            }
            k += 2;
        }
        return;
    }
    for (k, it) in items.iter().enumerate() {
        if k < start || (k / group) % stride != offset { continue; }
        if let Some(o) = only { if o != k { continue; } }
        writeln!(out, "{{\"i\":{},\"start\":true}}", k).unwrap();
        out.flush().unwrap();
        let t0 = std::time::Instant::now();
        let r = run_program(&it.prog, &it.cfg);
        let mut v = serde_json::to_value(&r).unwrap();
        v["i"] = k.into();
        v["ms"] = (t0.elapsed().as_millis() as u64).into();
        writeln!(out, "{}", v).unwrap();
        out.flush().unwrap();
    }
}
