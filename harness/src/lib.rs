pub mod interp;
pub mod run;
