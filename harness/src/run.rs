//! Runs one DSL program under the real `loom::model::Builder::check` and
//! collects what the checks need: outcomes, per-iteration traces, path
//! snapshots, the way the run ended.
use crate::interp::{self, Ev, Prog};
use serde::{Deserialize, Serialize};
use std::cell::RefCell;
use std::collections::{BTreeMap, HashSet};
use std::panic::{catch_unwind, AssertUnwindSafe};
use std::rc::Rc;
use std::sync::atomic::Ordering as StdOrd;
use std::sync::Arc as SArc;

#[derive(Deserialize, Clone, Debug, Default)]
pub struct Cfg {
    #[serde(default)]
    pub preemption_bound: Option<usize>,
    #[serde(default)]
    pub max_branches: Option<usize>,
    #[serde(default)]
    pub max_threads: Option<usize>,
    #[serde(default)]
    pub max_permutations: Option<usize>,
    #[serde(default)]
    pub max_duration_ms: Option<u64>,
    #[serde(default)]
    pub checkpoint_file: Option<String>,
    #[serde(default)]
    pub checkpoint_interval: Option<usize>,
    #[serde(default)]
    pub expect_explicit_explore: bool,
    /// environment variables to set (empty value: remove) before the run, and whether the run goes through `loom::model`
    /// (the configuration then comes from the environment) instead of an explicit Builder
    #[serde(default)]
    pub env: Option<std::collections::BTreeMap<String, String>>,
    #[serde(default)]
    pub via_model: bool,
    /// harness-side cap on iterations (the run is cut between two iterations)
    #[serde(default)]
    pub iter_cap: Option<usize>,
    /// keep at most this many distinct traces (0 = none)
    #[serde(default)]
    pub trace_cap: usize,
    /// record the path snapshot of every iteration
    #[serde(default)]
    pub want_paths: bool,
    /// keep at most this many hook events (0 = all)
    #[serde(default)]
    pub path_cap: usize,
    /// record the schedule-hook events (thread states at every Execution::schedule call) of every iteration
    #[serde(default)]
    pub want_sched: bool,
    /// record the outcome of every iteration in order (C13/C16)
    #[serde(default)]
    pub want_seq: bool,
    /// panic (user assertion) inside the model closure at the end of iteration k
    #[serde(default)]
    pub panic_at_iter: Option<usize>,
}

#[derive(Serialize, Clone, Debug, Default)]
pub struct RunResult {
    pub iters: usize,
    /// "ok" | "deadlock" | "race" | "leak:arc" | "leak:alloc" | "leak:msg" | "branches" |
    /// "panic" | "capped" | "other"
    pub end: String,
    pub msg: String,
    /// distinct outcomes of completed iterations: json of {regs, drops} -> count
    pub outcomes: BTreeMap<String, usize>,
    /// distinct traces (each: list of [t, pc, res|null])
    pub traces: Vec<Vec<(usize, usize, Option<i64>, i64)>>,
    /// number of distinct traces seen (may exceed traces.len() because of the cap)
    pub distinct_traces: usize,
    /// events of the iteration that failed (if any)
    pub fail_trace: Vec<(usize, usize, Option<i64>, i64)>,
    pub paths: Vec<String>,
    /// per-iteration outcome ids in execution order (index into `seq_keys`)
    pub seq: Vec<usize>,
    pub seq_keys: Vec<String>,
    /// hook phases seen: (phase, iter)
    pub phases: Vec<(String, usize)>,
    /// raw iteration-hook events (phase, iter, path json) when `want_paths`
    pub hook_events: Vec<(String, usize, String)>,
    /// per completed iteration: the schedule-hook events (path_pos, prev, next or -1, states) when `want_sched`
    pub sched_events: Vec<Vec<(usize, usize, i64, Vec<u8>)>>,
}

/// progress callback (iterations so far) so that a watchdog can tell a long run from a hang
pub static BEAT: std::sync::Mutex<Option<Box<dyn Fn(usize) + Send>>> = std::sync::Mutex::new(None);

pub fn classify(msg: &str) -> &'static str {
    // by what the message says, not by its exact wording: a reworded message is still the same report
    let m = msg.to_lowercase();
    if msg.starts_with("verif-panic") {
        "panic"
    } else if msg.starts_with("verif-cap") {
        "capped"
    } else if m.starts_with("deadlock") || m.contains("deadlock;") {
        "deadlock"
    } else if m.starts_with("causality violation") || m.contains("concurrent read and write") || m.contains("concurrent write") {
        "race"
    } else if m.starts_with("arc leaked") {
        "leak:arc"
    } else if m.starts_with("allocation leaked") {
        "leak:alloc"
    } else if m.starts_with("messages leaked") {
        "leak:msg"
    } else if m.contains("maximum number of branches") {
        "branches"
    } else if m.starts_with("currently writing to cell") || m.starts_with("currently reading from cell") || m.contains("lazy_static during shutdown") {
        "usage"
    } else {
        "other"
    }
}

fn evs(v: &[Ev]) -> Vec<(usize, usize, Option<i64>, i64)> {
    v.iter().map(|e| (e.t, e.pc, e.res, -1)).collect()
}

/// Events with the spurious decisions loom took attached to the `nwait` events: possible when the
/// program has a single Notify object and no block_on (then the Spurious entries of the executed path
/// are, in order, the decisions of that object's successive waits).
fn evs_spur(prog: &Prog, v: &[Ev], path: &str) -> Vec<(usize, usize, Option<i64>, i64)> {
    let mut out = evs(v);
    let uses_blockon = prog.threads.iter().any(|th| th.iter().any(|i| i.op == "blockon"));
    if prog.ntfs.len() != 1 || uses_blockon {
        return out;
    }
    let spurs: Vec<bool> = match serde_json::from_str::<serde_json::Value>(path) {
        Ok(p) => p["branches"]["entries"]
            .as_array()
            .map(|a| a.iter().filter_map(|e| e.get("Spurious").map(|s| s["spur"].as_bool().unwrap_or(false))).collect())
            .unwrap_or_default(),
        Err(_) => return out,
    };
    let mut k = 0;
    let mut spurred = false;
    for (i, e) in v.iter().enumerate() {
        if prog.threads[e.t - 1][e.pc - 1].op == "nwait" {
            if spurred {
                out[i].3 = 0;          // the object already spurred once: no decision was taken, a real wake-up
            } else if k < spurs.len() {
                out[i].3 = spurs[k] as i64;
                spurred = spurs[k];
                k += 1;
            }
        }
    }
    out
}

fn outcome_key(prog: &Prog, nthreads: usize, log: &[Ev]) -> String {
    let mut regs: Vec<Vec<i64>> = vec![vec![]; nthreads];
    for e in log {
        if let Some(r) = e.res {
            regs[e.t - 1].push(r);
        }
    }
    let drops: Vec<usize> =
        interp::DROPS.with(|d| d.borrow().iter().map(|c| c.load(StdOrd::SeqCst)).collect());
    let st: Vec<usize> = interp::STAT.with(|s| s.iter().map(|c| c.load(StdOrd::SeqCst)).collect());
    let mut tl = vec![];
    for k in prog.tls.iter() {
        let i = if k == "T0" { 0 } else { 2 };
        tl.push(vec![st[i], st[i + 1]]);
    }
    let mut lz = vec![];
    for k in prog.lzs.iter() {
        let i = if k == "Z0" { 4 } else { 6 };
        lz.push(vec![st[i], st[i + 1]]);
    }
    if st[8] > 0 {
        // a thread-local was still accessible from its own destructor
        return serde_json::json!({"regs": regs, "drops": drops, "stat": {"tl": tl, "lz": lz}, "tls_alive_in_drop": st[8]}).to_string();
    }
    if tl.is_empty() && lz.is_empty() {
        serde_json::json!({"regs": regs, "drops": drops}).to_string()
    } else {
        serde_json::json!({"regs": regs, "drops": drops, "stat": {"tl": tl, "lz": lz}}).to_string()
    }
}

struct Acc {
    res: RunResult,
    seen: HashSet<Vec<Ev>>,
    seq_ids: BTreeMap<String, usize>,
    /// the iteration that has run but whose leak check has not passed yet
    pending: Option<(Vec<Ev>, String, String)>,
}

impl Acc {
    /// the pending iteration completed without a leak report: count it
    fn commit(&mut self, cfg: &Cfg, prog: &Prog) {
        if let Some((log, key, path)) = self.pending.take() {
            *self.res.outcomes.entry(key.clone()).or_insert(0) += 1;
            if cfg.want_seq {
                let n = self.seq_ids.len();
                let id = *self.seq_ids.entry(key.clone()).or_insert(n);
                if id == n {
                    self.res.seq_keys.push(key);
                }
                self.res.seq.push(id);
            }

            if cfg.trace_cap > 0 && !self.seen.contains(&log) {
                self.res.distinct_traces += 1;
                if self.res.traces.len() < cfg.trace_cap {
                    self.res.traces.push(evs_spur(prog, &log, &path));
                }
                self.seen.insert(log);
            }
        }
    }
}

pub fn run_program(prog: &Prog, cfg: &Cfg) -> RunResult {
    let prog = SArc::new(prog.clone());
    let nthreads = prog.threads.len();
    let acc = Rc::new(RefCell::new(Acc {
        res: RunResult::default(),
        seen: HashSet::new(),
        seq_ids: BTreeMap::new(),
        pending: None,
    }));
    interp::LOG.with(|l| l.borrow_mut().clear());

    let acc2 = acc.clone();
    let cfg2 = cfg.clone();
    let prog2 = prog.clone();
    let sched: Rc<RefCell<Vec<(usize, usize, i64, Vec<u8>)>>> = Rc::new(RefCell::new(Vec::new()));
    if cfg.want_sched {
        let s2 = sched.clone();
        loom::verif::set_schedule_hook(Some(Box::new(move |e| {
            s2.borrow_mut().push((e.path_pos, e.prev, e.next.map(|n| n as i64).unwrap_or(-1), e.states.clone()));
        })));
    }
    let sched3 = sched.clone();
    loom::verif::set_iteration_hook(Some(Box::new(move |phase, iter, path| {
        let mut a = acc2.borrow_mut();
        if cfg2.want_sched && phase == "end" {
            let evs = std::mem::take(&mut *sched3.borrow_mut());
            if cfg2.path_cap == 0 || a.res.sched_events.len() < cfg2.path_cap {
                a.res.sched_events.push(evs);
            }
        }
        if cfg2.want_paths {
            a.res.phases.push((phase.to_string(), iter));
            if cfg2.path_cap == 0 || a.res.hook_events.len() < cfg2.path_cap {
                a.res.hook_events.push((phase.to_string(), iter, path.to_string()));
            }
        }
        match phase {
            "end" => {
                let log: Vec<Ev> = interp::LOG.with(|l| std::mem::take(&mut *l.borrow_mut()));
                a.res.iters = iter;
                if iter % 20000 == 0 {
                    if let Ok(b) = BEAT.lock() {
                        if let Some(f) = b.as_ref() {
                            f(iter);
                        }
                    }
                }
                let key = outcome_key(&prog2, nthreads, &log);
                a.pending = Some((log, key, path.to_string()));
            }
            "step" | "done" => {
                a.commit(&cfg2, &prog2);
                if phase == "step" {
                    if let Some(cap) = cfg2.iter_cap {
                        if iter > cap {
                            drop(a);
                            panic!("verif-cap");
                        }
                    }
                }
            }

            _ => {}
        }
    })));

    if let Some(env) = &cfg.env {
        for (k, v) in env {
            if v.is_empty() {
                std::env::remove_var(k);
            } else {
                std::env::set_var(k, v);
            }
        }
    }
    let mut b = loom::model::Builder::new();
    b.preemption_bound = cfg.preemption_bound;
    if let Some(v) = cfg.max_branches {
        b.max_branches = v;
    }
    if let Some(v) = cfg.max_threads {
        b.max_threads = v;
    }
    b.max_permutations = cfg.max_permutations;
    b.max_duration = cfg.max_duration_ms.map(std::time::Duration::from_millis);
    if let Some(f) = &cfg.checkpoint_file {
        b.checkpoint_file = Some(f.into());
    }
    if let Some(v) = cfg.checkpoint_interval {
        b.checkpoint_interval = v;
    }
    b.expect_explicit_explore = cfg.expect_explicit_explore;
    b.location = false;
    b.log = false;

    let p2 = prog.clone();
    let panic_at = cfg.panic_at_iter;
    let counter = SArc::new(std::sync::atomic::AtomicUsize::new(0));
    let via_model = cfg.via_model;
    let r = catch_unwind(AssertUnwindSafe(|| {
        let body = move || {
            let n = counter.fetch_add(1, StdOrd::SeqCst) + 1;
            interp::run_main(p2.clone());
            if panic_at == Some(n) {
                panic!("verif-panic at iteration {}", n);
            }
        };
        if via_model {
            loom::model(body);
        } else {
            b.check(body);
        }
    }));
    loom::verif::set_iteration_hook(None);
    loom::verif::set_schedule_hook(None);

    let pending = acc.borrow_mut().pending.take();
    if r.is_ok() {
        // returned between iterations (max_permutations / max_duration): the last iteration passed its leak check
        acc.borrow_mut().pending = pending.clone();
        acc.borrow_mut().commit(cfg, &prog);
    }
    let mut out = std::mem::take(&mut acc.borrow_mut().res);
    match r {
        Ok(()) => out.end = "ok".into(),
        Err(e) => {
            let msg = if let Some(s) = e.downcast_ref::<String>() {
                s.clone()
            } else if let Some(s) = e.downcast_ref::<&str>() {
                s.to_string()
            } else {
                "<non-string panic>".to_string()
            };
            out.end = classify(&msg).into();
            out.msg = msg.lines().next().unwrap_or("").chars().take(200).collect();
            let log: Vec<Ev> = interp::LOG.with(|l| std::mem::take(&mut *l.borrow_mut()));
            out.fail_trace = match (&pending, out.end.starts_with("leak")) {
                // a leak report belongs to the iteration that had just run
                (Some((plog, _, _)), true) => evs(plog),
                _ => evs(&log),
            };

        }
    }
    out
}
