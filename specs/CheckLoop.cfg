CONSTANT Grid <- MCGrid
SPECIFICATION Spec
INVARIANT ClosedForm
INVARIANT NoLaterThanBoundary
INVARIANT StoredIsNext
INVARIANT Emit
CHECK_DEADLOCK FALSE
