------------------------------- MODULE RC11Ax -------------------------------
(***************************************************************************)
(* Axiomatic RC11 (Lahav, Vafeiadis, Kang, Hur, Dreyer: "Repairing         *)
(* sequential consistency in C/C++11", PLDI 2017) for the litmus fragment  *)
(* of the program DSL: loads, stores, swaps and fences of the spawned      *)
(* threads, plus the final relaxed loads main performs after joining all   *)
(* threads.  Purpose: keep the operational oracle honest.  For every       *)
(* program of the batch the outcome set of this module must equal the      *)
(* outcome set of LoomSem's view machine (Strong = TRUE <-> RelSeqSame     *)
(* = TRUE, the C11/RC11 release sequence; FALSE <-> C++20).  A            *)
(* disagreement is a bug in the specifications, never a finding about      *)
(* loom.                                                                   *)
(*                                                                         *)
(* A candidate execution is (rf, mo); TLC enumerates all of them (mo       *)
(* first, an RMW's rf is forced to its mo-predecessor) and prints the      *)
(* outcome of every consistent one:                                        *)
(*   coherence   : hb irreflexive, hb;eco irreflexive                      *)
(*   atomicity   : an RMW reads its immediate mo-predecessor               *)
(*   SC          : psc = psc_base \cup psc_F acyclic (SC accesses and fences)*)
(*   no-thin-air : sb \cup rf acyclic                                       *)
(***************************************************************************)
EXTENDS Naturals, Sequences, FiniteSets, TLC, Json
CONSTANTS Progs, RelSeqSame
VARIABLES pid, rf, mo
vars == <<pid, rf, mo>>

Th(p) == Progs[p].threads
NT(p) == Len(Th(p))
MemOps == {"ld", "st", "rmw", "fence"}
\* main's code is  spawn*; join*; ld*  -- its loads run after every other event
IsFinal(p, e) == e[1] = 1
Ev(p) == UNION {{<<t, i>> : i \in {j \in 1..Len(Th(p)[t]) : Th(p)[t][j].op \in MemOps}} : t \in 1..NT(p)}
Ins(p, e) == Th(p)[e[1]][e[2]]
LocSeq(p) == LET S == Progs[p].atoms IN CHOOSE s \in [1..Cardinality(S) -> S] : \A i, j \in 1..Cardinality(S) : i # j => s[i] # s[j]
InitEv(p) == {<<0, k>> : k \in 1..Cardinality(Progs[p].atoms)}
IsInit(e) == e[1] = 0
Loc(p, e) == IF IsInit(e) THEN LocSeq(p)[e[2]] ELSE IF Ins(p, e).op = "fence" THEN "_" ELSE Ins(p, e).o
Op(p, e) == IF IsInit(e) THEN "st" ELSE Ins(p, e).op
Ord(p, e) == IF IsInit(e) THEN "rlx" ELSE Ins(p, e).ord
Val(p, e) == IF IsInit(e) THEN 0 ELSE Ins(p, e).v
All(p) == Ev(p) \cup InitEv(p)
Reads(p) == {e \in Ev(p) : Op(p, e) \in {"ld", "rmw"}}
Loads(p) == {e \in Ev(p) : Op(p, e) = "ld"}
Writes(p) == {e \in All(p) : Op(p, e) \in {"st", "rmw"}}
Fences(p) == {e \in Ev(p) : Op(p, e) = "fence"}
WritesTo(p, x) == {e \in Writes(p) : Loc(p, e) = x /\ ~IsInit(e)}
InitOf(p, x) == CHOOSE e \in InitEv(p) : Loc(p, e) = x
PermSeqs(S) == {s \in [1..Cardinality(S) -> S] : \A i, j \in 1..Cardinality(S) : i # j => s[i] # s[j]}

Init == /\ pid \in 1..Len(Progs) /\ rf = <<>> /\ mo = <<>>
MoPred(m, u) == LET x == Loc(pid, u)  i == CHOOSE i \in 1..Len(m[x]) : m[x][i] = u IN IF i = 1 THEN InitOf(pid, x) ELSE m[x][i - 1]
Choose == /\ mo = <<>>
          /\ \E m \in {m \in [Progs[pid].atoms -> UNION {PermSeqs(WritesTo(pid, x)) : x \in Progs[pid].atoms}] :
                        \A x \in Progs[pid].atoms : m[x] \in PermSeqs(WritesTo(pid, x))} :
             \E f \in {f \in [Loads(pid) -> Writes(pid)] : \A r \in Loads(pid) : Loc(pid, f[r]) = Loc(pid, r)} :
               /\ mo' = m
               /\ rf' = [r \in Reads(pid) |-> IF r \in Loads(pid) THEN f[r] ELSE MoPred(m, r)]
          /\ UNCHANGED pid
Next == Choose
Spec == Init /\ [][Next]_vars

p == pid
IsAcq(o) == o \in {"acq", "acqrel", "sc"}
IsRel(o) == o \in {"rel", "acqrel", "sc"}
EE == All(p)
\* relational composition and transitive closure, written over relations only (no quantification over the universe)
CompR(R, S) == UNION {{<<a[1], b[2]>> : b \in {c \in S : c[1] = a[2]}} : a \in R}
RECURSIVE TCn(_, _)
TCn(R, n) == IF n = 0 THEN R ELSE LET R2 == R \cup CompR(R, R) IN IF R2 = R THEN R ELSE TCn(R2, n - 1)
TC(R) == TCn(R, 6)
Id(S) == {<<e, e>> : e \in S}
Irrefl(R) == \A e \in R : e[1] # e[2]
MoPos(e) == IF IsInit(e) THEN 0 ELSE CHOOSE i \in 1..Len(mo[Loc(p, e)]) : mo[Loc(p, e)][i] = e
RECURSIVE RsClose(_)
RsClose(S) == LET S2 == S \cup {u \in Reads(p) : Op(p, u) = "rmw" /\ rf[u] \in S} IN IF S2 = S THEN S ELSE RsClose(S2)

Consistent ==
  LET EEc == All(p)
      Wc  == Writes(p)
      Rc  == Reads(p)
      Fc  == Fences(p)
      CompC(R, S) == CompR(R, S)
      sb == {ab \in EEc \X EEc :
               \/ IsInit(ab[1]) /\ ~IsInit(ab[2])
               \/ ~IsInit(ab[1]) /\ ~IsInit(ab[2]) /\ ab[1][1] = ab[2][1] /\ ab[1][2] < ab[2][2]
               \/ ~IsInit(ab[1]) /\ ~IsFinal(p, ab[1]) /\ IsFinal(p, ab[2])}       \* join: everything before main's final loads
      pos == [e \in Wc |-> MoPos(e)]
      moR == {ab \in Wc \X Wc : Loc(p, ab[1]) = Loc(p, ab[2]) /\ pos[ab[1]] < pos[ab[2]]}
      rfR == {<<rf[r], r>> : r \in Rc}
      rb == {rw \in Rc \X Wc : Loc(p, rw[1]) = Loc(p, rw[2]) /\ rw[1] # rw[2] /\ pos[rf[rw[1]]] < pos[rw[2]]}
      eco == TC(rfR \cup moR \cup rb)
      psb == {ab \in sb : ~IsInit(ab[1]) /\ ab[1][1] = ab[2][1]}            \* program order proper
      Rs(w0) == RsClose({w0} \cup (IF RelSeqSame THEN {w \in Wc : <<w0, w>> \in psb /\ Loc(p, w) = Loc(p, w0)} ELSE {}))
      RelSrc(w0) == (IF IsRel(Ord(p, w0)) THEN {w0} ELSE {}) \cup {f \in Fc : IsRel(Ord(p, f)) /\ <<f, w0>> \in psb}
      AcqTgt(r) == (IF IsAcq(Ord(p, r)) THEN {r} ELSE {}) \cup {f \in Fc : IsAcq(Ord(p, f)) /\ <<r, f>> \in psb}
      sw == UNION { UNION { UNION { RelSrc(w0) \X AcqTgt(r) : r \in {r \in Rc : rf[r] = w} } : w \in Rs(w0) } : w0 \in Wc \ InitEv(p) }
      hb == TC(sb \cup sw)
      hbq == hb \cup Id(EE)
      Fsc == {e \in Fc : Ord(p, e) = "sc"}
      Esc == {e \in Ev(p) : Op(p, e) # "fence" /\ Ord(p, e) = "sc"}
      hbecohb == CompC(CompC(hb, eco), hb)
      pscF == {e \in hb \cup hbecohb : e[1] \in Fsc /\ e[2] \in Fsc}
      \* psc_base of RC11: ([Esc] \cup [Fsc];hb?) ; scb ; ([Esc] \cup hb?;[Fsc])
      sbp == {ab \in sb : IsInit(ab[1]) \/ ab[1][1] = ab[2][1]}                       \* program order (and init first)
      sbneq == {e \in sbp : Loc(p, e[1]) # Loc(p, e[2]) \/ Loc(p, e[1]) = "_"}
      hbloc == {e \in hb : Loc(p, e[1]) = Loc(p, e[2]) /\ Loc(p, e[1]) # "_"}
      scb == sbp \cup CompC(CompC(sbneq, hb), sbneq) \cup hbloc \cup moR \cup rb
      pscL == Id(Esc) \cup CompC(Id(Fsc), hbq)
      pscR == Id(Esc) \cup CompC(hbq, Id(Fsc))
      pscbase == IF Esc = {} /\ Fsc = {} THEN {} ELSE CompC(CompC(pscL, scb), pscR)
  IN /\ Irrefl(hb) /\ Irrefl(CompC(hb, eco))
     /\ Irrefl(TC(sb \cup rfR))
     /\ Irrefl(TC(pscbase \cup pscF))

RegsOf(t) == LET rs == {e \in Reads(p) : e[1] = t} IN
             [k \in 1..Cardinality(rs) |-> LET e == CHOOSE e \in rs : Cardinality({d \in rs : d[2] <= e[2]}) = k IN Val(p, rf[e])]
Report == (mo # <<>> /\ Consistent) =>
            PrintT(<<"OUT", ToJson([p |-> pid, end |-> "ok", regs |-> [t \in 1..NT(p) |-> RegsOf(t)], drops |-> <<>>, stat |-> <<>>])>>)
=============================================================================
