--------------------------- MODULE CheckLoopInd ---------------------------
(***************************************************************************)
(* The iteration loop of Builder::check (CheckLoop.tla), restated over     *)
(* integers only, for an INDUCTIVE proof with Apalache that holds for every *)
(* number of iterations N and every max_permutations M (unbounded), for a  *)
(* fixed checkpoint interval C (ConstInit fixes it; one run per C):        *)
(*   the loop never runs more than M + C - 1 iterations                     *)
(* (it stops no later than the first checkpoint boundary at or after M).   *)
(* TLC checks the same statement on a grid (CheckLoop.cfg).                 *)
(***************************************************************************)
EXTENDS Integers
CONSTANTS
  \* @type: Int;
  N,
  \* @type: Int;
  M,
  \* @type: Int;
  C
VARIABLES
  \* @type: Int;
  i,
  \* @type: Int;
  ran,
  \* @type: Int;
  stored,
  \* @type: Str;
  phase

ConstInit3 == C = 3 /\ N \in Nat /\ M \in Nat /\ N >= 1 /\ M >= 1
ConstInit1 == C = 1 /\ N \in Nat /\ M \in Nat /\ N >= 1 /\ M >= 1
ConstInit2 == C = 2 /\ N \in Nat /\ M \in Nat /\ N >= 1 /\ M >= 1
ConstInit5 == C = 5 /\ N \in Nat /\ M \in Nat /\ N >= 1 /\ M >= 1
ConstInit20000 == C = 20000 /\ N \in Nat /\ M \in Nat /\ N >= 1 /\ M >= 1

Init == i = 1 /\ ran = 0 /\ stored = 0 /\ phase = "top"

Top == /\ phase = "top"
       /\ IF i % C = 0
          THEN /\ stored' = i
               /\ phase' = IF i >= M THEN "returned" ELSE "run"
          ELSE phase' = "run" /\ UNCHANGED stored
       /\ UNCHANGED <<i, ran>>

Run == /\ phase = "run"
       /\ ran' = ran + 1 /\ i' = i + 1
       /\ phase' = IF ran + 1 < N THEN "top" ELSE "returned"
       /\ UNCHANGED stored

\* (stuttering once returned, so that a terminated run is not a deadlock for Apalache)
Done == phase = "returned" /\ UNCHANGED <<i, ran, stored, phase>>
Next == Top \/ Run \/ Done

\* no multiple of C in a..b (a >= 1)
NoMult(a, b) == b < a \/ b - (b % C) < a

IndInv ==
  /\ phase \in {"top", "run", "returned"}
  /\ i >= 1 /\ ran >= 0 /\ stored >= 0
  /\ i = ran + 1
  /\ stored <= i
  /\ (phase = "top" => NoMult(M, i - 1))
  /\ (phase = "run" => NoMult(M, i))
  /\ (phase = "returned" => i <= M + C)
IndInit == /\ i \in Int /\ ran \in Int /\ stored \in Int /\ phase \in {"top", "run", "returned"}
           /\ IndInv

NoLaterThanBoundary == ran <= M + C - 1
StoredIsNext == stored # 0 => stored <= i
\* (not an invariant: kept to show that the check is not vacuous - Apalache must refute it)
TooStrong == ran <= M + C - 3
=============================================================================
