CONSTANTS
  NThreads = 3
  MaxDepth = 5
  BoundC = 0
  MaxIter = 100000
  Kinds = {"S", "L", "P"}
  Ctl = {"", "critical", "explore", "skip"}
  MaxB = 50
  NSalts = 0
SPECIFICATION Spec
INVARIANT NoRepeat
INVARIANT Terminates
INVARIANT WithinBound
INVARIANT Frozen
INVARIANT FrozenNoPending
INVARIANT TypeOK
INVARIANT Emit
CHECK_DEADLOCK FALSE
