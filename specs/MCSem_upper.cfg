CONSTANTS
  Strong = FALSE
  ScMode = "acqrel"
  NotifySpur = TRUE
  CvAny = TRUE
SPECIFICATION Spec
INVARIANT Report
CHECK_DEADLOCK FALSE
