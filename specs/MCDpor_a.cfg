SPECIFICATION Spec
CONSTANTS
  N = 3
  Progs <- MCProgs
  BoundList <- Bounds4
  Rule = "perthread"
  Emit = FALSE
  Kinds = {"ld", "st", "csld", "csst"}
  AtomNames = {"x", "y"}
  MtxNames = {"m"}
  K = 2
  MainK = 0
  Ntf = FALSE
INVARIANTS NoPanic NoRepeat Complete Sound Monotone Saturates Report
CHECK_DEADLOCK FALSE
