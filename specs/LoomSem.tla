------------------------------ MODULE LoomSem ------------------------------
(***************************************************************************)
(* Reference semantics of "loom programs": small straight-line programs    *)
(* over the primitives loom models (atomics with C11 orderings, fences,    *)
(* UnsafeCells, threads, park/unpark, Mutex, RwLock, Condvar, Notify, mpsc *)
(* channels, Arc, tracked allocations).                                    *)
(*                                                                         *)
(* This is NOT a model of loom's algorithm.  It is the meaning of a        *)
(* program: plain interleaving of one action per operation, an explicit    *)
(* view machine for the C11/RC11 memory model (promise-free: po \cup rf    *)
(* acyclic), total modification orders chosen eagerly, happens-before as   *)
(* vector clocks carried by views.  No partial-order reduction, no lazily  *)
(* constrained modification order.  TLC enumerates, per program, every     *)
(* terminal result; the harness compares them with what the real           *)
(* loom::model does on the same program, and LoomSemTrace.tla accepts or   *)
(* rejects each recorded iteration as a behaviour of this machine.         *)
(*                                                                         *)
(* A program is a record                                                   *)
(*   [threads |-> << code of thread 1 (main), code of thread 2, ... >>,    *)
(*    atoms, cells, mtxs, rws, cvs, ntfs, chans, arcs, trks |-> sets of    *)
(*    object names, hmap |-> handle name :> arc name,                      *)
(*    h0 |-> handles that exist initially, acell |-> arc :> cell or ""]    *)
(* and an instruction is                                                   *)
(*   [op, o, o2, v, w, ord, ord2, k]  (unused fields are 0 / "").          *)
(***************************************************************************)
EXTENDS Integers, Sequences, FiniteSets, TLC, Json

CONSTANTS
  Progs,        \* sequence of programs; Init picks one
  Strong,       \* TRUE: strongest synchronisation the documents allow (Lower
                \*   bound of outcome sets): RC11 same-thread release
                \*   sequences, strong_count acquires, cumulative channel views.
                \* FALSE: weakest (Upper bound).
  ScMode,       \* "acqrel": SeqCst accesses behave as acquire/release (README)
                \* "interleaved": every atomic access is sequentially
                \*   consistent (load reads mo-last, store appends)
  NotifySpur,   \* Notify::wait may return spuriously once per Notify
  CvAny         \* notify_one may wake any waiter (FALSE: FIFO, loom's queue)

VARIABLES
  pid,          \* which program
  pc, regs,     \* per thread: next instruction, values returned so far
  st,           \* per thread: "new" | "run"      (done = pc past the end)
  sub,          \* per thread: sub-state of a multi-step operation
  tv,           \* per thread: [cur, acq, rel] views
  scv,          \* view of the last SeqCst fence
  mo,           \* per atomic: modification order, a sequence of [id, val]
  mview,        \* message id -> released view
  glued,        \* message ids written by RMWs (nothing may be inserted before them)
  relx,         \* per thread, per atomic: view of the thread's last release store
  cells,        \* per cell: [w, r : thread -> epoch]      (race detection)
  ash,          \* per atomic: [mut, uld, ld, sto : thread -> epoch]
  ob,           \* record of all blocking/sync objects
  end,          \* "run" | "race" | "panic"
  out           \* "none" until the terminal state has been collapsed

vars == <<pid, pc, regs, st, sub, tv, scv, mo, mview, glued, relx, cells, ash, ob, end, out>>

-----------------------------------------------------------------------------
P        == Progs[pid]
Threads  == 1..Len(P.threads)
Code(t)  == P.threads[t]
Atoms    == P.atoms
INIT     == <<0, 0>>
NoThread == 0

Max(a, b) == IF a >= b THEN a ELSE b
IsAcq(o) == o \in {"acq", "acqrel", "sc"}
IsRel(o) == o \in {"rel", "acqrel", "sc"}

(* ---------------------------------------------------------------- views *)
Pos(x, id)      == CHOOSE i \in 1..Len(mo[x]) : mo[x][i].id = id
MaxId(x, a, b)  == IF Pos(x, a) >= Pos(x, b) THEN a ELSE b
JoinV(v, w)     == [lv |-> [x \in Atoms |-> MaxId(x, v.lv[x], w.lv[x])],
                    vc |-> [u \in Threads |-> Max(v.vc[u], w.vc[u])]]
BotFor(p)       == [lv |-> [x \in Progs[p].atoms |-> INIT],
                    vc |-> [u \in 1..Len(Progs[p].threads) |-> 0]]
Bot             == BotFor(pid)
AcqV(me, v)     == [me EXCEPT !.cur = JoinV(@, v), !.acq = JoinV(@, v)]
\* the views of thread t with its own clock advanced by one (one tick per action)
Tick(t)         == [tv[t] EXCEPT !.cur.vc[t] = @ + 1, !.acq.vc[t] = @ + 1]
Clk(me, t)      == me.cur.vc[t]
\* epoch function e (thread -> clock of that thread's last access) is covered by view v
Covered(e, v, t) == \A u \in Threads : u = t \/ e[u] <= v.vc[u]

(* ---------------------------------------------------------------- init *)
InitOb(p) ==
  LET Q == Progs[p] IN
  [ mtx  |-> [m \in Q.mtxs  |-> [owner |-> NoThread, view |-> BotFor(p), val |-> 0]],
    rw   |-> [l \in Q.rws   |-> [writer |-> NoThread, readers |-> {}, view |-> BotFor(p), val |-> 0]],
    cvq  |-> [c \in Q.cvs   |-> <<>>],
    ntf  |-> [n \in Q.ntfs  |-> [flag |-> FALSE, view |-> BotFor(p), spurred |-> FALSE]],
    tok  |-> [t \in 1..Len(Q.threads) |-> [set |-> FALSE, view |-> BotFor(p)]],
    wv   |-> [t \in 1..Len(Q.threads) |-> BotFor(p)],
    ch   |-> [c \in Q.chans |-> [q |-> <<>>, sview |-> BotFor(p), rx |-> TRUE]],
    arc  |-> [a \in Q.arcs  |-> [cnt |-> Cardinality({h \in Q.h0 : Q.hmap[h] = a}),
                                 view |-> BotFor(p), drops |-> 0]],
    trk  |-> [k \in Q.trks  |-> "none"],
    \* thread-locals: per thread and key the number of accesses so far (-1: not initialised in this thread)
    tl   |-> [t \in 1..Len(Q.threads) |-> [k \in Q.tls |-> -1]],
    tli  |-> [k \in Q.tls |-> 0],                       \* initialisations of key k (over all threads)
    \* lazy statics: published instance (-1: none), instances constructed so far, instances dropped early
    lz   |-> [z \in Q.lzs |-> [id |-> -1, ninit |-> 0, lost |-> 0, view |-> BotFor(p), wt |-> 0, wclk |-> 0]],
    lzmine |-> [t \in 1..Len(Q.threads) |-> -1],
    lzw  |-> [t \in 1..Len(Q.threads) |-> 0],            \* clock of the write into the instance under construction
    \* futures: AtomicWaker slot (thread whose block_on waker is registered, 0: none); per thread the
    \* Notify behind its block_on waker, and the number of polls of the block_on in progress
    aw   |-> [w \in Q.aws |-> [t |-> 0, g |-> 0]],      \* registered waker: thread and block_on generation (t = 0: none)
    awv  |-> [w \in Q.aws |-> BotFor(p)],               \* view handed over by the AtomicWaker's internal lock
    bon  |-> [t \in 1..Len(Q.threads) |-> [flag |-> FALSE, spurred |-> FALSE, view |-> BotFor(p), polls |-> 0, gen |-> 0]],
    \* raw waker slots: a clone of the block_on waker of thread rs[s] kept in plain shared memory (0: empty)
    rs   |-> [s \in Q.slots |-> [t |-> 0, g |-> 0]] ]

\* the initial state of program p as a record (used by Init and by the trace spec's reset)
I0(p) ==
  LET Q == Progs[p]  TS == 1..Len(Q.threads) IN
  [ pc    |-> [t \in TS |-> 1],
    regs  |-> [t \in TS |-> <<>>],
    st    |-> [t \in TS |-> IF t = 1 THEN "run" ELSE "new"],
    sub   |-> [t \in TS |-> ""],
    tv    |-> [t \in TS |-> [cur |-> BotFor(p), acq |-> BotFor(p), rel |-> BotFor(p)]],
    scv   |-> BotFor(p),
    mo    |-> [x \in Q.atoms |-> << [id |-> INIT, val |-> 0] >>],
    mview |-> (INIT :> BotFor(p)),
    glued |-> {},
    relx  |-> [t \in TS |-> [x \in Q.atoms |-> BotFor(p)]],
    cells |-> [c \in Q.cells |-> [w |-> [u \in TS |-> 0], r |-> [u \in TS |-> 0], hr |-> {}, hw |-> 0]],
    ash   |-> [x \in Q.atoms |-> [mut |-> [u \in TS |-> 0], uld |-> [u \in TS |-> 0],
                                  ld  |-> [u \in TS |-> 0], sto |-> [u \in TS |-> 0]]],
    ob    |-> InitOb(p) ]

InitFor(p) ==
  LET i == I0(p) IN
  /\ pid = p /\ pc = i.pc /\ regs = i.regs /\ st = i.st /\ sub = i.sub /\ tv = i.tv /\ scv = i.scv
  /\ mo = i.mo /\ mview = i.mview /\ glued = i.glued /\ relx = i.relx /\ cells = i.cells
  /\ ash = i.ash /\ ob = i.ob /\ end = "run" /\ out = "none"

\* every iteration starts from the same initial state (C16): the primed copy of InitFor
ResetTo(p) ==
  LET i == I0(p) IN
  /\ pid' = p /\ pc' = i.pc /\ regs' = i.regs /\ st' = i.st /\ sub' = i.sub /\ tv' = i.tv /\ scv' = i.scv
  /\ mo' = i.mo /\ mview' = i.mview /\ glued' = i.glued /\ relx' = i.relx /\ cells' = i.cells
  /\ ash' = i.ash /\ ob' = i.ob /\ end' = "run" /\ out' = "none"

Init == \E p \in 1..Len(Progs) : InitFor(p)

(* ------------------------------------------------------- small helpers *)
Ret(t, v)   == regs' = [regs EXCEPT ![t] = Append(@, v)]
NoRet       == UNCHANGED regs
SetMe(t, me) == tv' = [tv EXCEPT ![t] = me]
Adv(t)      == pc' = [pc EXCEPT ![t] = @ + 1]
DoneT(t)    == st[t] = "run" /\ pc[t] > Len(Code(t))
Ins(s, i, e) == SubSeq(s, 1, i) \o <<e>> \o SubSeq(s, i + 1, Len(s))
UnchMem     == UNCHANGED <<mo, mview, glued, relx>>
UnchRace    == UNCHANGED <<cells, ash>>
Race        == end' = "race"
NoRace      == UNCHANGED end

(* ------------------------------------------------------------- atomics *)
\* positions of x that thread views `me` may still read
Readable(me, x) == IF ScMode = "interleaved" THEN {Len(mo[x])}
                   ELSE {i \in 1..Len(mo[x]) : i >= Pos(x, me.cur.lv[x])}
\* positions after which a new message of thread views `me` may be inserted
Insertable(me, x) == IF ScMode = "interleaved" THEN {Len(mo[x])}
                     ELSE {i \in 1..Len(mo[x]) :
                             /\ i >= Pos(x, me.cur.lv[x])
                             /\ (i < Len(mo[x]) => mo[x][i + 1].id \notin glued)}
EffAcq(o) == IsAcq(o) \/ ScMode = "interleaved"
EffRel(o) == IsRel(o) \/ ScMode = "interleaved"

\* views after reading the message at position i of x
ReadMsg(me, x, i, acqp) ==
  LET m  == mo[x][i]
      mv == mview[m.id]
      c1 == [me.cur EXCEPT !.lv[x] = MaxId(x, @, m.id)]
      a1 == JoinV([me.acq EXCEPT !.lv[x] = MaxId(x, @, m.id)], mv)
  IN [me EXCEPT !.cur = IF acqp THEN JoinV(c1, mv) ELSE c1, !.acq = a1]

\* insert a message [id, val] after position i of x; `me` are the writer's views
\* (after the read part of an RMW), inherit = view carried over from the message an
\* RMW read (release sequence through RMWs), Bot for a plain store.
WriteMsg(t, me, x, val, relp, i, inherit) ==
  LET id   == <<t, pc[t]>>
      rx   == IF Strong THEN relx[t][x] ELSE Bot
      base == IF relp THEN me.cur ELSE me.rel
      mv0  == JoinV(JoinV(base, rx), inherit)
      mv   == [mv0 EXCEPT !.lv[x] = id]
      me1  == [me EXCEPT !.cur.lv[x] = id, !.acq.lv[x] = id]
  IN /\ mo'    = [mo EXCEPT ![x] = Ins(@, i, [id |-> id, val |-> val])]
     /\ mview' = (id :> mv) @@ mview
     /\ relx'  = IF relp THEN [relx EXCEPT ![t][x] = mv] ELSE relx
     /\ SetMe(t, me1)

AtomicLoadRace(me, t, x)  == ~Covered(ash[x].mut, me.cur, t)
AtomicStoreRace(me, t, x) == ~Covered(ash[x].mut, me.cur, t) \/ ~Covered(ash[x].uld, me.cur, t)

Load(t, ins, me) ==
  LET x == ins.o IN
  IF AtomicLoadRace(me, t, x)
  THEN Race /\ UNCHANGED <<pc, regs, tv, scv, ob, sub, st>> /\ UnchMem /\ UnchRace
  ELSE \E i \in Readable(me, x) :
         /\ SetMe(t, ReadMsg(me, x, i, EffAcq(ins.ord)))
         /\ Ret(t, mo[x][i].val)
         /\ ash' = [ash EXCEPT ![x].ld[t] = Clk(me, t)]
         /\ Adv(t) /\ NoRace /\ UnchMem
         /\ UNCHANGED <<scv, ob, sub, st, cells>>

Store(t, ins, me) ==
  LET x == ins.o IN
  IF AtomicStoreRace(me, t, x)
  THEN Race /\ UNCHANGED <<pc, regs, tv, scv, ob, sub, st>> /\ UnchMem /\ UnchRace
  ELSE \E i \in Insertable(me, x) :
         /\ WriteMsg(t, me, x, ins.v, EffRel(ins.ord), i, Bot)
         /\ ash' = [ash EXCEPT ![x].sto[t] = Clk(me, t)]
         /\ NoRet /\ Adv(t) /\ NoRace
         /\ UNCHANGED <<glued, scv, ob, sub, st, cells>>

RmwVal(k, old, v) == CASE k = "swap" -> v
                       [] k = "add"  -> old + v
                       [] k = "sub"  -> old - v
                       [] k = "max"  -> Max(old, v)
                       [] k = "min"  -> IF old <= v THEN old ELSE v

\* read-modify-write at position i (read mo[x][i], insert right after it)
RmwAtR(t, me, x, i, newval, ord, ret) ==
  LET me1 == ReadMsg(me, x, i, EffAcq(ord)) IN
  /\ WriteMsg(t, me1, x, newval, EffRel(ord), i, mview[mo[x][i].id])
  /\ glued' = glued \cup {<<t, pc[t]>>}
  /\ ash' = [ash EXCEPT ![x].sto[t] = Clk(me, t), ![x].ld[t] = Clk(me, t)]
  /\ (IF ret THEN Ret(t, mo[x][i].val) ELSE NoRet)
  /\ Adv(t) /\ NoRace
  /\ UNCHANGED <<scv, ob, sub, st, cells>>
RmwAt(t, me, x, i, newval, ord) == RmwAtR(t, me, x, i, newval, ord, TRUE)

Rmw(t, ins, me) ==
  LET x == ins.o IN
  IF AtomicStoreRace(me, t, x)
  THEN Race /\ UNCHANGED <<pc, regs, tv, scv, ob, sub, st>> /\ UnchMem /\ UnchRace
  ELSE \E i \in Readable(me, x) \cap Insertable(me, x) :
         RmwAt(t, me, x, i, RmwVal(ins.k, mo[x][i].val, ins.v), ins.ord)

\* compare_exchange(expected v, new w, success ord, failure ord2); returns the old value
Cas(t, ins, me) ==
  LET x == ins.o IN
  IF AtomicStoreRace(me, t, x)
  THEN Race /\ UNCHANGED <<pc, regs, tv, scv, ob, sub, st>> /\ UnchMem /\ UnchRace
  ELSE \/ \E i \in Readable(me, x) \cap Insertable(me, x) :
            /\ mo[x][i].val = ins.v
            /\ RmwAt(t, me, x, i, ins.w, ins.ord)
       \/ \E i \in Readable(me, x) :
            /\ mo[x][i].val # ins.v
            /\ SetMe(t, ReadMsg(me, x, i, EffAcq(ins.ord2)))
            /\ Ret(t, mo[x][i].val)
            /\ ash' = [ash EXCEPT ![x].ld[t] = Clk(me, t)]
            /\ Adv(t) /\ NoRace /\ UnchMem
            /\ UNCHANGED <<scv, ob, sub, st, cells>>

\* await: `while x.load(ord) == 0 { yield_now() }` as one blocking read of a non-zero message
\* (ins.v = 0: until non-zero; otherwise: until equal to ins.v)
AwaitOk(ins, val) == IF ins.v = 0 THEN val # 0 ELSE val = ins.v
AwaitReadable(me, ins) == {i \in Readable(me, ins.o) : AwaitOk(ins, mo[ins.o][i].val)}
Await(t, ins, me) ==
  LET x == ins.o IN
  \E i \in AwaitReadable(me, ins) :
     /\ SetMe(t, ReadMsg(me, x, i, EffAcq(ins.ord)))
     /\ Ret(t, mo[x][i].val)
     /\ ash' = [ash EXCEPT ![x].ld[t] = Clk(me, t)]
     /\ Adv(t) /\ NoRace /\ UnchMem
     /\ UNCHANGED <<scv, ob, sub, st, cells>>

Fence(t, ins, me) ==
  LET sc == ins.ord = "sc"
      c1 == IF IsAcq(ins.ord) THEN me.acq ELSE me.cur
      c2 == IF sc THEN JoinV(c1, scv) ELSE c1
      \* what later relaxed stores publish: everything the thread knows after the fence (the operational RC11 machine,
      \* Lower) - or, weakest reading (Upper), what it knew before it learned from SC-earlier fences of other threads.  Over
      \* all interleavings both give the RC11 outcomes (oracle self-check against RC11Ax); they differ in which outcome a
      \* GIVEN order of two SC fences can produce, and loom, like any implementation, is free there: the order in which
      \* it executed two fences need not be their order in S
      r2 == IF sc /\ ~Strong THEN c1 ELSE c2
  IN /\ SetMe(t, [cur |-> c2, acq |-> JoinV(me.acq, c2),
                  rel |-> IF IsRel(ins.ord) THEN r2 ELSE me.rel])
     /\ scv' = IF sc THEN c2 ELSE scv
     /\ NoRet /\ Adv(t) /\ NoRace /\ UnchMem /\ UnchRace
     /\ UNCHANGED <<ob, sub, st>>

\* Atomic::with_mut(|v| *v = ins.v): a non-atomic write of the atomic's memory
WithMut(t, ins, me) ==
  LET x == ins.o  a == ash[x]
      racy == ~Covered(a.mut, me.cur, t) \/ ~Covered(a.uld, me.cur, t)
              \/ ~Covered(a.ld, me.cur, t) \/ ~Covered(a.sto, me.cur, t)
      id == <<t, pc[t]>>
  IN IF racy
     THEN Race /\ UNCHANGED <<pc, regs, tv, scv, ob, sub, st>> /\ UnchMem /\ UnchRace
     ELSE /\ mo' = [mo EXCEPT ![x] = Append(@, [id |-> id, val |-> ins.v])]
          /\ mview' = (id :> [Bot EXCEPT !.lv[x] = id]) @@ mview
          /\ SetMe(t, [me EXCEPT !.cur.lv[x] = id, !.acq.lv[x] = id])
          /\ ash' = [ash EXCEPT ![x].mut[t] = Clk(me, t)]
          /\ NoRet /\ Adv(t) /\ NoRace
          /\ UNCHANGED <<glued, relx, scv, ob, sub, st, cells>>

\* Atomic::unsync_load / into_inner: a non-atomic read of the atomic's memory
UnsyncLoad(t, ins, me) ==
  LET x == ins.o  a == ash[x]
      racy == ~Covered(a.mut, me.cur, t) \/ ~Covered(a.sto, me.cur, t)
      n == Len(mo[x])
  IN IF racy
     THEN Race /\ UNCHANGED <<pc, regs, tv, scv, ob, sub, st>> /\ UnchMem /\ UnchRace
     ELSE /\ SetMe(t, [me EXCEPT !.cur.lv[x] = mo[x][n].id, !.acq.lv[x] = mo[x][n].id])
          /\ Ret(t, mo[x][n].val)
          /\ ash' = [ash EXCEPT ![x].uld[t] = Clk(me, t)]
          /\ Adv(t) /\ NoRace /\ UnchMem
          /\ UNCHANGED <<scv, ob, sub, st, cells>>

(* ---------------------------------------------------------------- cells *)
CellRead(t, c, me) ==
  IF ~Covered(cells[c].w, me.cur, t)
  THEN Race /\ UNCHANGED cells
  ELSE NoRace /\ cells' = [cells EXCEPT ![c].r[t] = Clk(me, t)]
CellWrite(t, c, me) ==
  IF ~Covered(cells[c].w, me.cur, t) \/ ~Covered(cells[c].r, me.cur, t)
  THEN Race /\ UNCHANGED cells
  ELSE NoRace /\ cells' = [cells EXCEPT ![c].w[t] = Clk(me, t)]

\* an access that starts while another access of the conflicting kind is open (UnsafeCell::get / get_mut pointers held by
\* some thread, hr / hw): loom's "currently reading from / writing to cell" assertion, checked before the race check
CellUsage(t, ins, me) ==
  /\ end' = "usage"
  /\ UNCHANGED <<pc, regs, tv, scv, ob, sub, st>> /\ UnchMem /\ UnchRace
Rd(t, ins, me) ==
  IF cells[ins.o].hw # 0 THEN CellUsage(t, ins, me) ELSE
  /\ CellRead(t, ins.o, me)
  /\ SetMe(t, me) /\ NoRet /\ Adv(t) /\ UnchMem
  /\ UNCHANGED <<scv, ob, sub, st, ash>>
Wr(t, ins, me) ==
  IF cells[ins.o].hw # 0 \/ cells[ins.o].hr # {} THEN CellUsage(t, ins, me) ELSE
  /\ CellWrite(t, ins.o, me)
  /\ SetMe(t, me) /\ NoRet /\ Adv(t) /\ UnchMem
  /\ UNCHANGED <<scv, ob, sub, st, ash>>
\* UnsafeCell::get() / get_mut(): the access is open from the call until the pointer is dropped; it is checked against
\* conflicting accesses when it starts AND when it ends (Reading::drop / Writing::drop track the access again)
CellPlain(t, me) == SetMe(t, me) /\ NoRet /\ Adv(t) /\ UnchMem /\ UNCHANGED <<scv, ob, sub, st, ash>>
RdHold(t, ins, me) ==
  LET c == ins.o IN
  IF cells[c].hw # 0 THEN CellUsage(t, ins, me)
  ELSE IF ~Covered(cells[c].w, me.cur, t) THEN Race /\ UNCHANGED cells /\ CellPlain(t, me)
  ELSE NoRace /\ cells' = [cells EXCEPT ![c].r[t] = Clk(me, t), ![c].hr = @ \cup {t}] /\ CellPlain(t, me)
RdRel(t, ins, me) ==
  LET c == ins.o IN
  IF ~Covered(cells[c].w, me.cur, t) THEN Race /\ UNCHANGED cells /\ CellPlain(t, me)
  ELSE NoRace /\ cells' = [cells EXCEPT ![c].r[t] = Clk(me, t), ![c].hr = @ \ {t}] /\ CellPlain(t, me)
WrHold(t, ins, me) ==
  LET c == ins.o IN
  IF cells[c].hw # 0 \/ cells[c].hr # {} THEN CellUsage(t, ins, me)
  ELSE IF ~Covered(cells[c].w, me.cur, t) \/ ~Covered(cells[c].r, me.cur, t) THEN Race /\ UNCHANGED cells /\ CellPlain(t, me)
  ELSE NoRace /\ cells' = [cells EXCEPT ![c].w[t] = Clk(me, t), ![c].hw = t] /\ CellPlain(t, me)
WrRel(t, ins, me) ==
  LET c == ins.o IN
  IF ~Covered(cells[c].w, me.cur, t) \/ ~Covered(cells[c].r, me.cur, t) THEN Race /\ UNCHANGED cells /\ CellPlain(t, me)
  ELSE NoRace /\ cells' = [cells EXCEPT ![c].w[t] = Clk(me, t), ![c].hw = 0] /\ CellPlain(t, me)

\* the closure passed to with / with_mut panics (k = "panic"): the access itself is checked first
FailInside(t, ins, me, racy) ==
  IF racy THEN Race /\ UNCHANGED <<pc, regs, tv, scv, ob, sub, st>> /\ UnchMem /\ UnchRace
  ELSE /\ end' = "panic"
       /\ UNCHANGED <<pc, regs, tv, scv, ob, sub, st>> /\ UnchMem /\ UnchRace
RdPanic(t, ins, me) == FailInside(t, ins, me, ~Covered(cells[ins.o].w, me.cur, t))
WrPanic(t, ins, me) == FailInside(t, ins, me, ~Covered(cells[ins.o].w, me.cur, t) \/ ~Covered(cells[ins.o].r, me.cur, t))
WithMutPanic(t, ins, me) ==
  LET a == ash[ins.o] IN
  FailInside(t, ins, me, ~Covered(a.mut, me.cur, t) \/ ~Covered(a.uld, me.cur, t)
                         \/ ~Covered(a.ld, me.cur, t) \/ ~Covered(a.sto, me.cur, t))

\* a read of the cell from inside its own write section (or the reverse): a usage error loom detects
\* with an assertion; the model must fail with it (and not abort the process)
NestedCell(t, ins, me) ==
  /\ end' = "usage"
  /\ UNCHANGED <<pc, regs, tv, scv, ob, sub, st>> /\ UnchMem /\ UnchRace

(* -------------------------------------------------------------- threads *)
Plain(t, me) == /\ SetMe(t, me) /\ Adv(t) /\ NoRace /\ UnchMem /\ UnchRace /\ UNCHANGED <<scv, sub>>

Spawn(t, ins, me) ==
  LET u == ins.v IN
  /\ st[u] = "new"
  /\ st' = [st EXCEPT ![u] = "run"]
  /\ tv' = [tv EXCEPT ![t] = me, ![u] = [cur |-> me.cur, acq |-> me.cur, rel |-> Bot]]
  /\ NoRet /\ Adv(t) /\ NoRace /\ UnchMem /\ UnchRace
  /\ UNCHANGED <<scv, sub, ob>>

CanJoin(u) == DoneT(u)
Join(t, ins, me) ==
  LET u == ins.v IN
  /\ CanJoin(u)
  /\ Plain(t, AcqV(me, tv[u].cur)) /\ NoRet
  /\ UNCHANGED <<st, ob>>

Yield(t, ins, me) == Plain(t, me) /\ NoRet /\ UNCHANGED <<st, ob>>

Park(t, ins, me) ==
  /\ ob.tok[t].set
  /\ ob' = [ob EXCEPT !.tok[t].set = FALSE]
  /\ Plain(t, AcqV(me, ob.tok[t].view)) /\ NoRet /\ UNCHANGED st

Unpark(t, ins, me) ==
  LET u == ins.v IN
  /\ ob' = [ob EXCEPT !.tok[u] = [set |-> TRUE, view |-> JoinV(@.view, me.cur)]]
  /\ Plain(t, me) /\ NoRet /\ UNCHANGED st

(* ---------------------------------------------------------------- mutex *)
Lock(t, ins, me) ==
  LET m == ins.o IN
  /\ ob.mtx[m].owner = NoThread
  /\ ob' = [ob EXCEPT !.mtx[m].owner = t]
  /\ Plain(t, AcqV(me, ob.mtx[m].view)) /\ NoRet /\ UNCHANGED st

TryLock(t, ins, me) ==
  LET m == ins.o IN
  IF ob.mtx[m].owner = NoThread
  THEN /\ ob' = [ob EXCEPT !.mtx[m].owner = t]
       /\ Plain(t, AcqV(me, ob.mtx[m].view)) /\ Ret(t, 1) /\ UNCHANGED st
  ELSE /\ Plain(t, me) /\ Ret(t, 0) /\ UNCHANGED <<st, ob>>

Unlock(t, ins, me) ==
  LET m == ins.o IN
  /\ ob.mtx[m].owner = t
  /\ ob' = [ob EXCEPT !.mtx[m].owner = NoThread, !.mtx[m].view = JoinV(@, me.cur)]
  /\ Plain(t, me) /\ NoRet /\ UNCHANGED st

\* the value protected by the mutex: written / read through the guard, or through get_mut / into_inner
MSet(t, ins, me) ==
  /\ ob.mtx[ins.o].owner = t
  /\ ob' = [ob EXCEPT !.mtx[ins.o].val = ins.v]
  /\ Plain(t, me) /\ NoRet /\ UNCHANGED st
MGet(t, ins, me) ==
  /\ ob.mtx[ins.o].owner = t
  /\ Plain(t, me) /\ Ret(t, ob.mtx[ins.o].val) /\ UNCHANGED <<st, ob>>
\* Mutex::get_mut / into_inner: exclusive access by construction (&mut self / self), no locking
MInner(t, ins, me) == Plain(t, me) /\ Ret(t, ob.mtx[ins.o].val) /\ UNCHANGED <<st, ob>>

(* --------------------------------------------------------------- rwlock *)
CanRead(l)  == ob.rw[l].writer = NoThread
CanWrite(l) == ob.rw[l].writer = NoThread /\ ob.rw[l].readers = {}

RwRead(t, ins, me) ==
  LET l == ins.o IN
  /\ CanRead(l)
  /\ ob' = [ob EXCEPT !.rw[l].readers = @ \cup {t}]
  /\ Plain(t, AcqV(me, ob.rw[l].view)) /\ NoRet /\ UNCHANGED st
RwWrite(t, ins, me) ==
  LET l == ins.o IN
  /\ CanWrite(l)
  /\ ob' = [ob EXCEPT !.rw[l].writer = t]
  /\ Plain(t, AcqV(me, ob.rw[l].view)) /\ NoRet /\ UNCHANGED st
RwTryRead(t, ins, me) ==
  LET l == ins.o IN
  IF CanRead(l)
  THEN /\ ob' = [ob EXCEPT !.rw[l].readers = @ \cup {t}]
       /\ Plain(t, AcqV(me, ob.rw[l].view)) /\ Ret(t, 1) /\ UNCHANGED st
  ELSE Plain(t, me) /\ Ret(t, 0) /\ UNCHANGED <<st, ob>>
RwTryWrite(t, ins, me) ==
  LET l == ins.o IN
  IF CanWrite(l)
  THEN /\ ob' = [ob EXCEPT !.rw[l].writer = t]
       /\ Plain(t, AcqV(me, ob.rw[l].view)) /\ Ret(t, 1) /\ UNCHANGED st
  ELSE Plain(t, me) /\ Ret(t, 0) /\ UNCHANGED <<st, ob>>
RwUnlockR(t, ins, me) ==
  LET l == ins.o IN
  /\ t \in ob.rw[l].readers
  /\ ob' = [ob EXCEPT !.rw[l].readers = @ \ {t}, !.rw[l].view = JoinV(@, me.cur)]
  /\ Plain(t, me) /\ NoRet /\ UNCHANGED st
RwUnlockW(t, ins, me) ==
  LET l == ins.o IN
  /\ ob.rw[l].writer = t
  /\ ob' = [ob EXCEPT !.rw[l].writer = NoThread, !.rw[l].view = JoinV(@, me.cur)]
  /\ Plain(t, me) /\ NoRet /\ UNCHANGED st

RwSet(t, ins, me) ==
  /\ ob.rw[ins.o].writer = t
  /\ ob' = [ob EXCEPT !.rw[ins.o].val = ins.v]
  /\ Plain(t, me) /\ NoRet /\ UNCHANGED st
RwGet(t, ins, me) ==
  /\ ob.rw[ins.o].writer = t \/ t \in ob.rw[ins.o].readers
  /\ Plain(t, me) /\ Ret(t, ob.rw[ins.o].val) /\ UNCHANGED <<st, ob>>
RwInner(t, ins, me) == Plain(t, me) /\ Ret(t, ob.rw[ins.o].val) /\ UNCHANGED <<st, ob>>

(* -------------------------------------------------------------- condvar *)
\* Condvar::wait(guard of mutex o2) is three steps:
\*   sub = ""        : enqueue on the condvar and release the mutex
\*   sub = "cvq"     : (blocked) until a notify dequeues this thread -> "cvwoken"
\*   sub = "cvwoken" : re-acquire the mutex, acquire the notifier's view, return
CvWaitEnq(t, ins, me) ==
  LET c == ins.o  m == ins.o2 IN
  /\ sub[t] = ""
  /\ ob.mtx[m].owner = t
  /\ ob' = [ob EXCEPT !.cvq[c] = Append(@, t),
                      !.mtx[m].owner = NoThread, !.mtx[m].view = JoinV(@, me.cur)]
  /\ sub' = [sub EXCEPT ![t] = "cvq"]
  /\ SetMe(t, me) /\ NoRet /\ NoRace /\ UnchMem /\ UnchRace
  /\ UNCHANGED <<pc, scv, st>>
CvWaitRelock(t, ins, me) ==
  LET m == ins.o2 IN
  /\ sub[t] = "cvwoken"
  /\ ob.mtx[m].owner = NoThread
  /\ ob' = [ob EXCEPT !.mtx[m].owner = t]
  /\ sub' = [sub EXCEPT ![t] = ""]
  /\ SetMe(t, AcqV(AcqV(me, ob.mtx[m].view), ob.wv[t]))
  /\ Adv(t) /\ NoRet /\ NoRace /\ UnchMem /\ UnchRace
  /\ UNCHANGED <<scv, st>>
CvWait(t, ins, me) == CvWaitEnq(t, ins, me) \/ CvWaitRelock(t, ins, me)

RemoveAt(s, i) == SubSeq(s, 1, i - 1) \o SubSeq(s, i + 1, Len(s))
WakeOne(o, c, i, v) ==   \* object record o with waiter i of condvar c woken, handing over view v
  LET w == o.cvq[c][i] IN
  [o EXCEPT !.cvq[c] = RemoveAt(@, i), !.wv[w] = JoinV(@, v)]

NotifyOne(t, ins, me) ==
  LET c == ins.o  q == ob.cvq[c] IN
  /\ IF q = <<>>
     THEN UNCHANGED <<ob, sub>>
     ELSE \E i \in (IF CvAny THEN 1..Len(q) ELSE {1}) :
            /\ ob' = WakeOne(ob, c, i, me.cur)
            /\ sub' = [sub EXCEPT ![q[i]] = "cvwoken"]
  /\ SetMe(t, me) /\ Adv(t) /\ NoRet /\ NoRace /\ UnchMem /\ UnchRace
  /\ UNCHANGED <<scv, st>>

NotifyAll(t, ins, me) ==
  LET c == ins.o  q == ob.cvq[c]  ws == {q[i] : i \in 1..Len(q)} IN
  /\ ob' = [ob EXCEPT !.cvq[c] = <<>>,
                      !.wv = [u \in Threads |-> IF u \in ws THEN JoinV(ob.wv[u], me.cur) ELSE ob.wv[u]]]
  /\ sub' = [u \in Threads |-> IF u \in ws THEN "cvwoken" ELSE sub[u]]
  /\ SetMe(t, me) /\ Adv(t) /\ NoRet /\ NoRace /\ UnchMem /\ UnchRace
  /\ UNCHANGED <<scv, st>>

(* --------------------------------------------------------------- notify *)
NWait(t, ins, me) ==
  LET n == ins.o IN
  \/ /\ ob.ntf[n].flag
     /\ ob' = [ob EXCEPT !.ntf[n].flag = FALSE]
     /\ Plain(t, AcqV(me, ob.ntf[n].view)) /\ NoRet /\ UNCHANGED st
  \/ /\ NotifySpur /\ ~ob.ntf[n].spurred
     /\ ob' = [ob EXCEPT !.ntf[n].spurred = TRUE]
     /\ Plain(t, me) /\ NoRet /\ UNCHANGED st
CanNWait(n) == ob.ntf[n].flag \/ (NotifySpur /\ ~ob.ntf[n].spurred)

NNotify(t, ins, me) ==
  LET n == ins.o IN
  \* every notification that is pending when the waiter consumes the flag synchronises with it (a
  \* notify is a release RMW on the flag: coalesced notifications form a release sequence)
  /\ ob' = [ob EXCEPT !.ntf[n].flag = TRUE, !.ntf[n].view = JoinV(@, me.cur)]
  /\ Plain(t, me) /\ NoRet /\ UNCHANGED st

(* -------------------------------------------------------------- channel *)
Send(t, ins, me) ==
  LET c == ins.o  s == JoinV(ob.ch[c].sview, me.cur)
      mv == IF Strong THEN s ELSE me.cur IN
  /\ ob' = IF ob.ch[c].rx
           THEN [ob EXCEPT !.ch[c].q = Append(@, [val |-> ins.v, view |-> mv]), !.ch[c].sview = s]
           ELSE ob
  /\ Plain(t, me) /\ NoRet /\ UNCHANGED st
Recv(t, ins, me) ==
  LET c == ins.o  q == ob.ch[c].q IN
  /\ q # <<>>
  /\ ob' = [ob EXCEPT !.ch[c].q = Tail(q)]
  /\ Plain(t, AcqV(me, q[1].view)) /\ Ret(t, q[1].val) /\ UNCHANGED st
TryRecv(t, ins, me) ==
  LET c == ins.o  q == ob.ch[c].q IN
  IF q # <<>>
  THEN /\ ob' = [ob EXCEPT !.ch[c].q = Tail(q)]
       /\ Plain(t, AcqV(me, q[1].view)) /\ Ret(t, q[1].val) /\ UNCHANGED st
  ELSE Plain(t, me) /\ Ret(t, 0) /\ UNCHANGED <<st, ob>>
RECURSIVE JoinAll(_, _)
JoinAll(v, q) == IF q = <<>> THEN v ELSE JoinAll(JoinV(v, q[1].view), Tail(q))
DropRx(t, ins, me) ==
  LET c == ins.o IN
  /\ ob' = [ob EXCEPT !.ch[c].q = <<>>, !.ch[c].rx = FALSE]
  /\ Plain(t, AcqV(me, JoinAll(Bot, ob.ch[c].q))) /\ NoRet /\ UNCHANGED st

(* ------------------------------------------------------------------ arc *)
ArcOf(h) == P.hmap[h]
\* the payload's Drop writes the arc's cell (if it has one)
PayloadDrop(t, a, me) ==
  IF P.acell[a] = "" THEN NoRace /\ UNCHANGED cells ELSE CellWrite(t, P.acell[a], me)
ArcBase(t, me) == /\ SetMe(t, me) /\ Adv(t) /\ UnchMem /\ UNCHANGED <<scv, sub, st, ash>>

AClone(t, ins, me) ==
  LET a == ArcOf(ins.o) IN
  /\ ob' = [ob EXCEPT !.arc[a].cnt = @ + 1]
  /\ ArcBase(t, me) /\ NoRet /\ NoRace /\ UNCHANGED cells
\* drop of a handle (also decrement_strong_count)
ADrop(t, ins, me) ==
  LET a == ArcOf(ins.o)  r == ob.arc[a]  v1 == JoinV(r.view, me.cur) IN
  IF r.cnt = 1
  THEN LET me1 == AcqV(me, v1) IN
       /\ ob' = [ob EXCEPT !.arc[a] = [cnt |-> 0, view |-> v1, drops |-> r.drops + 1]]
       /\ PayloadDrop(t, a, me1)
       /\ ArcBase(t, me1) /\ NoRet
  ELSE /\ ob' = [ob EXCEPT !.arc[a].cnt = @ - 1, !.arc[a].view = v1]
       /\ ArcBase(t, me) /\ NoRet /\ NoRace /\ UNCHANGED cells
ACount(t, ins, me) ==
  LET a == ArcOf(ins.o) IN
  /\ ArcBase(t, IF Strong THEN AcqV(me, ob.arc[a].view) ELSE me)
  /\ Ret(t, ob.arc[a].cnt) /\ NoRace /\ UNCHANGED <<cells, ob>>
AGetMut(t, ins, me) ==
  LET a == ArcOf(ins.o) IN
  /\ ArcBase(t, AcqV(me, ob.arc[a].view))
  /\ Ret(t, IF ob.arc[a].cnt = 1 THEN 1 ELSE 0) /\ NoRace /\ UNCHANGED <<cells, ob>>
\* try_unwrap; on success the handle is consumed and the value dropped by the caller
AUnwrap(t, ins, me) ==
  LET a == ArcOf(ins.o)  r == ob.arc[a] IN
  IF r.cnt = 1
  THEN LET me1 == AcqV(me, r.view) IN
       /\ ob' = [ob EXCEPT !.arc[a] = [cnt |-> 0, view |-> r.view, drops |-> r.drops + 1]]
       /\ PayloadDrop(t, a, me1)
       /\ ArcBase(t, me1) /\ Ret(t, 1)
  ELSE /\ ArcBase(t, IF Strong THEN AcqV(me, r.view) ELSE me) /\ Ret(t, 0) /\ NoRace /\ UNCHANGED <<cells, ob>>
\* into_raw / from_raw / ptr_eq do not touch the count
ANop(t, ins, me) == ArcBase(t, me) /\ NoRet /\ NoRace /\ UNCHANGED <<cells, ob>>
APtrEq(t, ins, me) ==
  /\ ArcBase(t, me) /\ Ret(t, IF ArcOf(ins.o) = ArcOf(ins.o2) THEN 1 ELSE 0)
  /\ NoRace /\ UNCHANGED <<cells, ob>>

(* ---------------------------------------------------------- allocations *)
TNew(t, ins, me)    == ob' = [ob EXCEPT !.trk[ins.o] = "live"]    /\ Plain(t, me) /\ NoRet /\ UNCHANGED st
TDrop(t, ins, me)   == ob' = [ob EXCEPT !.trk[ins.o] = "dropped"] /\ Plain(t, me) /\ NoRet /\ UNCHANGED st
TForget(t, ins, me) == ob' = [ob EXCEPT !.trk[ins.o] = "leaked"]  /\ Plain(t, me) /\ NoRet /\ UNCHANGED st

(* -------------------------------------------------------------- statics *)
\* LocalKey::with: initialised lazily once per thread, private to the thread; returns the number of
\* earlier accesses by this thread
TlWith(t, ins, me) ==
  LET k == ins.o  c == ob.tl[t][k] IN
  /\ ob' = [ob EXCEPT !.tl[t][k] = IF c = -1 THEN 1 ELSE c + 1,
                      !.tli[k] = IF c = -1 THEN @ + 1 ELSE @]
  /\ Plain(t, me) /\ Ret(t, IF c = -1 THEN 0 ELSE c) /\ UNCHANGED st
\* the destructor of this thread's value of key ins.o, run when the thread finishes: part of the thread, i.e. BEFORE the
\* thread counts as finished for JoinHandle::join (std: thread-locals are destroyed before the thread terminates).  The
\* interpreter's value does one SeqCst fetch_add(1) on the atomic tl0c / tl1c (if the program declares it) - an effect the
\* joining thread must see.  `tlexit k` is written as the last instruction(s) of the thread, in key order.
TlAtom(k) == IF k = "T0" THEN "tl0c" ELSE "tl1c"
TlExit(t, ins, me) ==
  LET k == ins.o  x == TlAtom(k) IN
  IF ob.tl[t][k] # -1 /\ x \in P.atoms
  THEN IF AtomicStoreRace(me, t, x)
       THEN Race /\ UNCHANGED <<pc, regs, tv, scv, ob, sub, st>> /\ UnchMem /\ UnchRace
       ELSE \E i \in Readable(me, x) \cap Insertable(me, x) : RmwAtR(t, me, x, i, mo[x][i].val + 1, "sc", FALSE)
  ELSE Plain(t, me) /\ NoRet /\ UNCHANGED <<st, ob>>
\* nested with: key o, inside it key o2; returns the inner key's earlier accesses
\* (the same key nested in itself: one value, initialised once - by the outer access -, two accesses; the inner one
\* returns the number of accesses before it, the outer one included)
TlNest(t, ins, me) ==
  LET k == ins.o  k2 == ins.o2  c == ob.tl[t][k]  c2 == ob.tl[t][k2]  n == IF c = -1 THEN 0 ELSE c IN
  IF k = k2
  THEN /\ ob' = [ob EXCEPT !.tl[t][k] = n + 2, !.tli[k] = IF c = -1 THEN @ + 1 ELSE @]
       /\ Plain(t, me) /\ Ret(t, n + 1) /\ UNCHANGED st
  ELSE
  /\ ob' = [ob EXCEPT !.tl[t] = [@ EXCEPT ![k] = IF c = -1 THEN 1 ELSE c + 1, ![k2] = IF c2 = -1 THEN 1 ELSE c2 + 1],
                      !.tli = [@ EXCEPT ![k] = IF c = -1 THEN @ + 1 ELSE @, ![k2] = IF c2 = -1 THEN @ + 1 ELSE @]]
  /\ Plain(t, me) /\ Ret(t, IF c2 = -1 THEN 0 ELSE c2) /\ UNCHANGED st

\* the cell an initialiser of lazy static z writes (if the program declares it)
LzCell(z) == "c_" \o z
LzInitWrite(t, z, me) == IF LzCell(z) \in P.cells THEN CellWrite(t, LzCell(z), me) ELSE NoRace /\ UNCHANGED cells
LzBase(t, me) == /\ SetMe(t, me) /\ UnchMem /\ UNCHANGED <<scv, st, ash>>
\* Lazy::get, initialiser without a scheduling point (ins.k = ""): one step
LzGetSimple(t, ins, me) ==
  LET z == ins.o  r == ob.lz[z] IN
  IF r.id # -1
  THEN /\ LzBase(t, AcqV(me, r.view)) /\ Adv(t) /\ Ret(t, r.id) /\ NoRace /\ UNCHANGED <<cells, ob, sub>>
  ELSE /\ LzInitWrite(t, z, me)
       /\ ob' = [ob EXCEPT !.lz[z] = [id |-> r.ninit, ninit |-> r.ninit + 1, lost |-> r.lost, view |-> me.cur,
                                      wt |-> t, wclk |-> Clk(me, t)]]
       /\ LzBase(t, me) /\ Adv(t) /\ Ret(t, r.ninit) /\ UNCHANGED sub
\* initialiser that yields (ins.k = "yield"): construct, (other threads may run), then publish or discard
LzGetRacy(t, ins, me) ==
  LET z == ins.o  r == ob.lz[z] IN
  IF sub[t] = ""
  THEN IF r.id # -1
       THEN /\ LzBase(t, AcqV(me, r.view)) /\ Adv(t) /\ Ret(t, r.id) /\ NoRace /\ UNCHANGED <<cells, ob, sub>>
       ELSE /\ LzInitWrite(t, z, me)
            /\ ob' = [ob EXCEPT !.lz[z].ninit = @ + 1, !.lzmine[t] = r.ninit, !.lzw[t] = Clk(me, t)]
            /\ sub' = [sub EXCEPT ![t] = "lzinit"]
            /\ LzBase(t, me) /\ NoRet /\ UNCHANGED pc
  ELSE /\ sub[t] = "lzinit"
       /\ sub' = [sub EXCEPT ![t] = ""]
       /\ IF r.id # -1
          THEN /\ ob' = [ob EXCEPT !.lz[z].lost = @ + 1, !.lzmine[t] = -1]       \* lost the race: own instance dropped
               /\ LzBase(t, AcqV(me, r.view)) /\ Ret(t, r.id)
          ELSE /\ ob' = [ob EXCEPT !.lz[z].id = ob.lzmine[t], !.lz[z].view = me.cur, !.lzmine[t] = -1,
                                   !.lz[z].wt = t, !.lz[z].wclk = ob.lzw[t]]
               /\ LzBase(t, me) /\ Ret(t, ob.lzmine[t])
       /\ Adv(t) /\ NoRace /\ UNCHANGED cells
\* k = "yield" / "rmw": the initialiser contains a scheduling point (yield_now / an RMW on an atomic nobody reads)
\* the statics of an execution are destroyed when the closure of the main thread returns (model.rs: lazy_statics.drop()
\* right after f()); a thread that was not joined and reaches a static after that point is refused ("attempted to access
\* lazy_static during shutdown"): a usage error that fails the model - never a second instance
LzShutdown(t) == t # 1 /\ st[1] = "run" /\ pc[1] > Len(Code(1))
LzRefused(t, ins, me) ==
  /\ end' = "usage"
  /\ UNCHANGED <<pc, regs, tv, scv, ob, sub, st>> /\ UnchMem /\ UnchRace
LzGet(t, ins, me) == IF LzShutdown(t) THEN LzRefused(t, ins, me)
                     ELSE IF ins.k \in {"yield", "rmw"} THEN LzGetRacy(t, ins, me) ELSE LzGetSimple(t, ins, me)
\* read the cell that lives inside the published instance (written by its initialiser) through the
\* reference obtained by the preceding get: ordered after that write iff the get handed over the
\* publisher's view
LzRead(t, ins, me) ==
  LET r == ob.lz[ins.o] IN
  /\ IF r.wt # 0 /\ r.wt # t /\ r.wclk > me.cur.vc[r.wt] THEN Race ELSE NoRace
  /\ SetMe(t, me) /\ NoRet /\ Adv(t) /\ UnchMem /\ UNCHANGED <<scv, ob, sub, st, ash, cells>>

(* -------------------------------------------------------------- futures *)
\* future::block_on of a hand-written future over AtomicWaker ins.o and flag ins.o2:
\*   k = "reg-check":  poll = { w.register_by_ref(cx.waker()); v = flag.load(ord); v # 0 ? Ready(v) : Pending }
\*   k = "check-reg":  poll = { v = flag.load(ord); if v # 0 Ready(v); w.register_by_ref(cx.waker()); Pending }
\* block_on = loop { poll; if Pending { notify.wait() } }, Notify with one spurious return.
\* Sub-states: "" / "bo_poll" at the start of a poll, "bo_c" register done (reg-check), "bo_r" load saw 0
\* (check-reg), "bo_wait" Pending returned.  Returns v * 100 + number of polls.
BoBase(t, me) == /\ SetMe(t, me) /\ UNCHANGED <<scv, st, cells>>
\* every block_on call has a Notify of its own: a waker left over from an earlier call wakes nothing
BoStart(t, me) ==
  /\ ob' = [ob EXCEPT !.bon[t] = [flag |-> FALSE, spurred |-> FALSE, view |-> Bot, polls |-> 0, gen |-> @.gen + 1]]
  /\ sub' = [sub EXCEPT ![t] = "bo_poll"]
  /\ BoBase(t, me) /\ UnchMem /\ NoRet /\ NoRace /\ UNCHANGED <<pc, ash>>
MyWaker(t) == [t |-> t, g |-> ob.bon[t].gen]
NoWaker == [t |-> 0, g |-> 0]
\* the Notify a waker u belongs to is still the one its thread is blocked on
Alive(u) == u.t # 0 /\ ob.bon[u.t].gen = u.g
\* register and wake both run under the AtomicWaker's lock: acquire its view, release the own one
BoRegister(t, ins, me, nextsub) ==
  LET me1 == AcqV(me, ob.awv[ins.o]) IN
  /\ ob' = [ob EXCEPT !.aw[ins.o] = MyWaker(t), !.awv[ins.o] = JoinV(@, me1.cur)]
  /\ sub' = [sub EXCEPT ![t] = nextsub]
  /\ BoBase(t, me1) /\ UnchMem /\ NoRet /\ NoRace /\ UNCHANGED <<pc, ash>>
BoCheck(t, ins, me, pendsub) ==
  LET x == ins.o2  np == ob.bon[t].polls + 1 IN
  \E i \in Readable(me, x) :
    /\ SetMe(t, ReadMsg(me, x, i, EffAcq(ins.ord)))
    /\ ash' = [ash EXCEPT ![x].ld[t] = Clk(me, t)]
    /\ IF AwaitOk(ins, mo[x][i].val)              \* ready: non-zero, or (ins.v # 0) equal to ins.v
       THEN /\ Ret(t, mo[x][i].val * 100 + np) /\ Adv(t)
            /\ sub' = [sub EXCEPT ![t] = ""]
            /\ ob' = [ob EXCEPT !.bon[t].polls = 0]
       ELSE /\ NoRet /\ UNCHANGED pc
            /\ sub' = [sub EXCEPT ![t] = pendsub]
            /\ ob' = [ob EXCEPT !.bon[t].polls = np]
    /\ UnchMem /\ NoRace /\ UNCHANGED <<scv, st, cells>>
BoWait(t, ins, me) ==
  \/ /\ ob.bon[t].flag
     /\ ob' = [ob EXCEPT !.bon[t].flag = FALSE]
     /\ sub' = [sub EXCEPT ![t] = "bo_poll"]
     /\ BoBase(t, AcqV(me, ob.bon[t].view)) /\ UnchMem /\ NoRet /\ NoRace /\ UNCHANGED <<pc, ash>>
  \/ /\ NotifySpur /\ ~ob.bon[t].spurred
     /\ ob' = [ob EXCEPT !.bon[t].spurred = TRUE]
     /\ sub' = [sub EXCEPT ![t] = "bo_poll"]
     /\ BoBase(t, me) /\ UnchMem /\ NoRet /\ NoRace /\ UNCHANGED <<pc, ash>>
\* k = "raw": poll = { slot o := cx.waker().clone(); slot ord2 := cx.waker().clone() (if named);
\*                    v = flag.load(ord); if v = 0 Pending; (second flag w named by the `k2` convention: o2 + "2")
\*                    Ready(v) }   -- wakers hold their own clones: two of them can notify before the waiter runs
BoStash(t, slot, nextsub) ==
  /\ ob' = [ob EXCEPT !.rs[slot] = MyWaker(t)]
  /\ sub' = [sub EXCEPT ![t] = nextsub]
\* after stashing, the future announces it with a relaxed store of 1 to the atomic o2 \o "r"; the wakers
\* await that flag first, so they always find the slot filled (the slot itself is memory loom cannot see)
BoAnnounce(t, ins, me, nextsub) ==
  LET x == ins.o2 \o "r"  id == <<t, pc[t] + 100 * (ob.bon[t].polls + 1)>> IN
  \E i \in Insertable(me, x) :
    /\ mo' = [mo EXCEPT ![x] = Ins(@, i, [id |-> id, val |-> 1])]
    /\ mview' = (id :> [me.rel EXCEPT !.lv[x] = id]) @@ mview
    /\ SetMe(t, [me EXCEPT !.cur.lv[x] = id, !.acq.lv[x] = id])
    /\ ash' = [ash EXCEPT ![x].sto[t] = Clk(me, t)]
    /\ sub' = [sub EXCEPT ![t] = nextsub]
    /\ NoRet /\ NoRace /\ UNCHANGED <<pc, glued, relx, scv, st, cells, ob>>
BoRaw(t, ins, me) ==
  LET two == ins.ord2 # "" IN
  CASE sub[t] = "" -> BoStart(t, me)
    [] sub[t] = "bo_poll" ->
         /\ BoStash(t, ins.o, IF two THEN "bo_s2" ELSE "bo_a")
         /\ BoBase(t, me) /\ UnchMem /\ NoRet /\ NoRace /\ UNCHANGED <<pc, ash>>
    [] sub[t] = "bo_s2" ->
         /\ BoStash(t, ins.ord2, "bo_a")
         /\ BoBase(t, me) /\ UnchMem /\ NoRet /\ NoRace /\ UNCHANGED <<pc, ash>>
    [] sub[t] = "bo_a" -> BoAnnounce(t, ins, me, "bo_c")
    [] sub[t] = "bo_c" ->
         IF ins.w = 0 THEN BoCheck(t, ins, me, "bo_wait")
         ELSE \* two flags: o2 first; only if it is set the second one (o2 \o "2") decides
              LET x == ins.o2 IN
              \E i \in Readable(me, x) :
                /\ SetMe(t, ReadMsg(me, x, i, EffAcq(ins.ord)))
                /\ ash' = [ash EXCEPT ![x].ld[t] = Clk(me, t)]
                /\ sub' = [sub EXCEPT ![t] = IF mo[x][i].val # 0 THEN "bo_c2" ELSE "bo_wait"]
                /\ ob' = IF mo[x][i].val # 0 THEN ob ELSE [ob EXCEPT !.bon[t].polls = @ + 1]
                /\ NoRet /\ UnchMem /\ NoRace /\ UNCHANGED <<pc, scv, st, cells>>
    [] sub[t] = "bo_c2" -> BoCheck(t, [ins EXCEPT !.o2 = ins.o2 \o "2"], me, "bo_wait")
    [] sub[t] = "bo_wait" -> BoWait(t, ins, me)
BlockOn(t, ins, me) ==
  IF ins.k = "raw" THEN BoRaw(t, ins, me)
  ELSE IF ins.k = "reg-check"
  THEN CASE sub[t] = "" -> BoStart(t, me)
         [] sub[t] = "bo_poll" -> BoRegister(t, ins, me, "bo_c")
         [] sub[t] = "bo_c"    -> BoCheck(t, ins, me, "bo_wait")
         [] sub[t] = "bo_wait" -> BoWait(t, ins, me)
  ELSE CASE sub[t] = "" -> BoStart(t, me)
         [] sub[t] = "bo_poll" -> BoCheck(t, ins, me, "bo_r")
         [] sub[t] = "bo_r"    -> BoRegister(t, ins, me, "bo_wait")
         [] sub[t] = "bo_wait" -> BoWait(t, ins, me)
\* AtomicWaker::wake: take the registered waker (if any) and wake it.  Two steps: the effect, then the
\* return (dropping the taken waker is a scheduling point after the notification took effect).
AwWake(t, ins, me) ==
  LET w == ins.o  u == ob.aw[w]  me1 == AcqV(me, ob.awv[w]) IN
  IF sub[t] = ""
  THEN /\ ob' = IF ~Alive(u) THEN [ob EXCEPT !.aw[w] = NoWaker, !.awv[w] = JoinV(@, me1.cur)]
                ELSE [ob EXCEPT !.aw[w] = NoWaker, !.awv[w] = JoinV(@, me1.cur),
                                !.bon[u.t].flag = TRUE, !.bon[u.t].view = JoinV(@, me1.cur)]
       /\ sub' = [sub EXCEPT ![t] = "wk"]
       /\ SetMe(t, me1) /\ NoRet /\ NoRace /\ UnchMem /\ UnchRace /\ UNCHANGED <<pc, scv, st>>
  ELSE /\ sub' = [sub EXCEPT ![t] = ""]
       /\ SetMe(t, me) /\ Adv(t) /\ NoRet /\ NoRace /\ UnchMem /\ UnchRace /\ UNCHANGED <<scv, st, ob>>

\* wake through a raw slot: "wakeslot" takes the clone and wakes it (Waker::wake), "wakeref" wakes it in
\* place (Waker::wake_by_ref).  No lock is involved, so only the notification itself orders the waiter.
RawWake(t, ins, me, take) ==
  LET s == ins.o  u == ob.rs[s] IN
  IF sub[t] = ""
  THEN /\ ob' = IF ~Alive(u) THEN [ob EXCEPT !.rs[s] = IF take THEN NoWaker ELSE u]
                ELSE [ob EXCEPT !.rs[s] = IF take THEN NoWaker ELSE u,
                                !.bon[u.t].flag = TRUE, !.bon[u.t].view = JoinV(@, me.cur)]
       /\ sub' = [sub EXCEPT ![t] = "wk"]
       /\ SetMe(t, me) /\ NoRet /\ NoRace /\ UnchMem /\ UnchRace /\ UNCHANGED <<pc, scv, st>>
  ELSE /\ sub' = [sub EXCEPT ![t] = ""]
       /\ SetMe(t, me) /\ Adv(t) /\ NoRet /\ NoRace /\ UnchMem /\ UnchRace /\ UNCHANGED <<scv, st, ob>>

(* -------------------------------------------------------------- control *)
\* br: if regs[r] = v fall through, else skip the next w instructions
Br(t, ins, me) ==
  /\ pc' = [pc EXCEPT ![t] = IF regs[t][ins.r] = ins.v THEN @ + 1 ELSE @ + 1 + ins.w]
  /\ SetMe(t, me) /\ NoRet /\ NoRace /\ UnchMem /\ UnchRace
  /\ UNCHANGED <<scv, sub, st, ob>>
Panic(t, ins, me) ==
  /\ end' = "panic"
  /\ UNCHANGED <<pc, regs, tv, scv, ob, sub, st>> /\ UnchMem /\ UnchRace
Nop(t, ins, me) == Plain(t, me) /\ NoRet /\ UNCHANGED <<st, ob>>

(* ------------------------------------------------------------- dispatch *)
Do(t, ins, me) ==
  CASE ins.op = "ld"       -> Load(t, ins, me)
    [] ins.op = "st"       -> Store(t, ins, me)
    [] ins.op = "rmw"      -> Rmw(t, ins, me)
    [] ins.op = "cas"      -> Cas(t, ins, me)
    [] ins.op = "await"    -> Await(t, ins, me)
    [] ins.op = "fence"    -> Fence(t, ins, me)
    [] ins.op = "wmut"     -> IF ins.k = "panic" THEN WithMutPanic(t, ins, me) ELSE WithMut(t, ins, me)
    [] ins.op = "uld"      -> UnsyncLoad(t, ins, me)
    [] ins.op = "rd"       -> IF ins.k = "panic" THEN RdPanic(t, ins, me) ELSE Rd(t, ins, me)
    [] ins.op = "wr"       -> IF ins.k = "panic" THEN WrPanic(t, ins, me) ELSE Wr(t, ins, me)
    [] ins.op \in {"wrrd", "rdwr"} -> NestedCell(t, ins, me)
    [] ins.op = "rdhold"   -> RdHold(t, ins, me)
    [] ins.op = "rdrel"    -> RdRel(t, ins, me)
    [] ins.op = "wrhold"   -> WrHold(t, ins, me)
    [] ins.op = "wrrel"    -> WrRel(t, ins, me)
    [] ins.op = "spawn"    -> Spawn(t, ins, me)
    [] ins.op = "join"     -> Join(t, ins, me)
    [] ins.op = "yield"    -> Yield(t, ins, me)
    [] ins.op = "park"     -> Park(t, ins, me)
    [] ins.op = "unpark"   -> Unpark(t, ins, me)
    [] ins.op = "lock"     -> Lock(t, ins, me)
    [] ins.op = "trylock"  -> TryLock(t, ins, me)
    [] ins.op = "unlock"   -> Unlock(t, ins, me)
    [] ins.op = "mset"     -> MSet(t, ins, me)
    [] ins.op = "mget"     -> MGet(t, ins, me)
    [] ins.op \in {"mgetmut", "minto"} -> MInner(t, ins, me)
    [] ins.op = "rwset"    -> RwSet(t, ins, me)
    [] ins.op = "rwget"    -> RwGet(t, ins, me)
    [] ins.op \in {"rwgetmut", "rwinto"} -> RwInner(t, ins, me)
    [] ins.op = "read"     -> RwRead(t, ins, me)
    [] ins.op = "write"    -> RwWrite(t, ins, me)
    [] ins.op = "tryread"  -> RwTryRead(t, ins, me)
    [] ins.op = "trywrite" -> RwTryWrite(t, ins, me)
    [] ins.op = "unlockr"  -> RwUnlockR(t, ins, me)
    [] ins.op = "unlockw"  -> RwUnlockW(t, ins, me)
    [] ins.op = "cvwait"   -> CvWait(t, ins, me)
    [] ins.op = "notify1"  -> NotifyOne(t, ins, me)
    [] ins.op = "notifyall" -> NotifyAll(t, ins, me)
    [] ins.op = "nwait"    -> NWait(t, ins, me)
    [] ins.op = "notify"   -> NNotify(t, ins, me)
    [] ins.op = "send"     -> Send(t, ins, me)
    [] ins.op = "recv"     -> Recv(t, ins, me)
    [] ins.op = "tryrecv"  -> TryRecv(t, ins, me)
    [] ins.op = "droprx"   -> DropRx(t, ins, me)
    [] ins.op = "aclone"   -> AClone(t, ins, me)
    [] ins.op \in {"adrop", "adropheld"} -> ADrop(t, ins, me)
    [] ins.op = "acount"   -> ACount(t, ins, me)
    [] ins.op = "agetmut"  -> AGetMut(t, ins, me)
    [] ins.op = "aunwrap"  -> AUnwrap(t, ins, me)
    [] ins.op \in {"aintoraw", "ahold"} -> ANop(t, ins, me)
    [] ins.op = "afromraw" -> ANop(t, ins, me)
    [] ins.op = "aptreq"   -> APtrEq(t, ins, me)
    [] ins.op = "tnew"     -> TNew(t, ins, me)
    [] ins.op = "tdrop"    -> TDrop(t, ins, me)
    [] ins.op = "tforget"  -> TForget(t, ins, me)
    [] ins.op = "tlwith"   -> TlWith(t, ins, me)
    [] ins.op = "tlexit"   -> TlExit(t, ins, me)
    [] ins.op = "tlnest"   -> TlNest(t, ins, me)
    [] ins.op = "lzget"    -> LzGet(t, ins, me)
    [] ins.op = "lzread"   -> LzRead(t, ins, me)
    [] ins.op = "blockon"  -> BlockOn(t, ins, me)
    [] ins.op = "wake"     -> AwWake(t, ins, me)
    [] ins.op = "wakeslot" -> RawWake(t, ins, me, TRUE)
    [] ins.op = "wakeref"  -> RawWake(t, ins, me, FALSE)
    [] ins.op = "br"       -> Br(t, ins, me)
    [] ins.op = "panic"    -> Panic(t, ins, me)
    [] ins.op \in {"nop", "stopx", "explore", "skipb", "aguard", "rxhold", "rxrel", "stack"} -> Nop(t, ins, me)

Live(t) == end = "run" /\ st[t] = "run" /\ pc[t] <= Len(Code(t))

Step(t) == /\ Live(t)
           /\ Do(t, Code(t)[pc[t]], Tick(t))
           /\ UNCHANGED <<pid, out>>

\* Guaranteed enabledness of the next instruction of t (guards of the blocking operations).
\* Used for deadlock classification only; Step(t) itself decides what can happen.
CanStep(t) ==
  /\ Live(t)
  /\ LET ins == Code(t)[pc[t]] IN
     CASE ins.op = "join"   -> CanJoin(ins.v)
       [] ins.op = "park"   -> ob.tok[t].set
       [] ins.op = "lock"   -> ob.mtx[ins.o].owner = NoThread
       [] ins.op = "read"   -> CanRead(ins.o)
       [] ins.op = "write"  -> CanWrite(ins.o)
       [] ins.op = "cvwait" -> \/ sub[t] = ""
                               \/ sub[t] = "cvwoken" /\ ob.mtx[ins.o2].owner = NoThread
       [] ins.op = "nwait"  -> ob.ntf[ins.o].flag     \* a spurious return is possible but never guaranteed:
                                                      \* a state that needs one to make progress is a deadlock
       [] ins.op = "recv"   -> ob.ch[ins.o].q # <<>>
       [] ins.op = "await"  -> AwaitReadable(Tick(t), ins) # {}
       [] ins.op = "blockon" -> sub[t] # "bo_wait" \/ ob.bon[t].flag
       [] OTHER -> TRUE

(* ------------------------------------------------------------- terminal *)
Started     == {t \in Threads : st[t] = "run"}
AllDone     == \A t \in Started : pc[t] > Len(Code(t))
Deadlocked  == end = "run" /\ ~AllDone /\ \A t \in Threads : ~CanStep(t)
LeakKinds   == (IF \E a \in P.arcs : ob.arc[a].cnt > 0 THEN {"leak:arc"} ELSE {})
          \cup (IF \E k \in P.trks : ob.trk[k] \in {"live", "leaked"} THEN {"leak:alloc"} ELSE {})
          \cup (IF \E c \in P.chans : ob.ch[c].q # <<>> THEN {"leak:msg"} ELSE {})
Terminal    == end # "fin" /\ (end # "run" \/ AllDone \/ Deadlocked)
EndKinds    == IF end # "run" THEN {end}
               ELSE IF AllDone THEN (IF LeakKinds = {} THEN {"ok"} ELSE LeakKinds)
               ELSE {"deadlock"}
\* what is compared with the implementation
\* init / drop counters the harness observes at the end of an iteration (every initialised thread-local
\* is dropped with its thread, every constructed lazy instance is dropped by the end of the iteration)
Stat == [tl |-> [k \in P.tls |-> ob.tli[k]], lz |-> [z \in P.lzs |-> ob.lz[z].ninit]]
Outcome(k)  == [p |-> pid, end |-> k,
                stat |-> IF k \in {"race", "deadlock", "panic", "usage"} THEN <<>> ELSE Stat,
                regs |-> IF k \in {"race", "deadlock", "panic", "usage"} THEN <<>> ELSE regs,
                drops |-> IF k \in {"race", "deadlock", "panic", "usage"} THEN <<>> ELSE [a \in P.arcs |-> ob.arc[a].drops]]

\* collapse a terminal state so that TLC sees one state per distinct outcome
Finish == /\ Terminal
          /\ \E k \in EndKinds : out' = Outcome(k)
          /\ pc' = 0 /\ regs' = 0 /\ st' = 0 /\ sub' = 0 /\ tv' = 0 /\ scv' = 0 /\ mo' = 0
          /\ mview' = 0 /\ glued' = 0 /\ relx' = 0 /\ cells' = 0 /\ ash' = 0 /\ ob' = 0
          /\ end' = "fin"
          /\ UNCHANGED pid

Next == Finish \/ \E t \in Threads : Step(t)
Spec == Init /\ [][Next]_vars

Report == end = "fin" => PrintT(<<"OUT", ToJson(out)>>)
=============================================================================
