CONSTANTS
  Strong = TRUE
  ScMode = "interleaved"
  NotifySpur = FALSE
  CvAny = FALSE
SPECIFICATION Spec
INVARIANT Report
CHECK_DEADLOCK FALSE
