CONSTANTS
  Strong = TRUE
  ScMode = "acqrel"
  NotifySpur = FALSE
  CvAny = FALSE
SPECIFICATION Spec
INVARIANT Report
CHECK_DEADLOCK FALSE
