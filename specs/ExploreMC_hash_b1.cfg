CONSTANTS
  NThreads = 3
  MaxDepth = 6
  BoundC = 1
  MaxIter = 100000
  Kinds = {"S", "L", "P"}
  Ctl = {"", "critical", "explore", "skip"}
  MaxB = 50
  NSalts = 400
SPECIFICATION Spec
INVARIANT NoRepeat
INVARIANT Terminates
INVARIANT WithinBound
INVARIANT Frozen
INVARIANT FrozenNoPending
INVARIANT TypeOK
INVARIANT Emit
CHECK_DEADLOCK FALSE
