------------------------------ MODULE AtomicSeq ------------------------------
(***************************************************************************)
(* A W-bit atomic register with the documented results of every           *)
(* std::sync::atomic operation, in limb arithmetic (TLC integers are 32    *)
(* bits; a value is a little-endian tuple of 8-bit limbs).  The spec is    *)
(* independent of Rust's `as u64` / `as $t` conversions, which is where    *)
(* loom (values stored as u64, rt/num.rs) could go wrong.                  *)
(*                                                                         *)
(* State: the type and the current value.  Every transition is printed as  *)
(* one JSON line  (type, value before, operation, operands, returned       *)
(* value, Ok/Err shape, value after).  The harness chains transitions into *)
(* operation sequences and replays them on loom::sync::atomic::* inside a  *)
(* model AND on std::sync::atomic::*: spec = std validates this spec,      *)
(* spec = loom is property C12.                                            *)
(***************************************************************************)
EXTENDS Integers, Sequences, FiniteSets, Bitwise, TLC, Json

CONSTANTS Types,      \* set of [name, w, signed, kind]; kind \in {"int", "bool", "ptr"}
          MaxDepth    \* how many operations deep the reachable values are explored

VARIABLES ty, val, depth
avars == <<ty, val, depth>>

W == ty.w
Idx == 1..W
Const(w, b) == [i \in 1..w |-> b]
Zero == Const(W, 0)
One == [i \in Idx |-> IF i = 1 THEN 1 ELSE 0]
AllOnes == Const(W, 255)
SMax == [i \in Idx |-> IF i = W THEN 127 ELSE 255]
SMin == [i \in Idx |-> IF i = W THEN 128 ELSE 0]

(* ------------------------------------------------------ limb arithmetic *)
LAdd(a, b) ==
  LET c[i \in 1..(W + 1)] == IF i = 1 THEN 0 ELSE (a[i - 1] + b[i - 1] + c[i - 1]) \div 256
  IN [i \in Idx |-> (a[i] + b[i] + c[i]) % 256]
LNot(a) == [i \in Idx |-> 255 - a[i]]
LNeg(a) == LAdd(LNot(a), One)
LSub(a, b) == LAdd(a, LNeg(b))
LAnd(a, b) == [i \in Idx |-> a[i] & b[i]]
LOr(a, b)  == [i \in Idx |-> a[i] | b[i]]
LXor(a, b) == [i \in Idx |-> a[i] ^^ b[i]]
\* unsigned comparison from the most significant limb down
LessU(a, b) ==
  LET D == {i \in Idx : a[i] # b[i]} IN
  IF D = {} THEN FALSE ELSE LET m == CHOOSE i \in D : \A j \in D : j <= i IN a[m] < b[m]
Flip(a) == [a EXCEPT ![W] = (@ + 128) % 256]           \* signed order = unsigned order of the sign-flipped values
Less(a, b) == IF ty.signed THEN LessU(Flip(a), Flip(b)) ELSE LessU(a, b)
LMax(a, b) == IF Less(a, b) THEN b ELSE a
LMin(a, b) == IF Less(a, b) THEN a ELSE b

IsBool == ty.kind = "bool"
\* fetch_nand: !(a & b); for bool the logical negation
Nand(a, b) == IF IsBool THEN [i \in Idx |-> 1 - (a[i] & b[i])] ELSE LNot(LAnd(a, b))

(* ----------------------------------------------------------- operands *)
Operands ==
  IF IsBool THEN {Const(1, 0), Const(1, 1)}
  ELSE {Zero, One, AllOnes, SMax, SMin, Const(W, 85), LSub(SMin, One) , LAdd(One, One)}

Init == /\ ty \in Types
        /\ val \in (IF ty.kind = "bool" THEN {Const(1, 0), Const(1, 1)} ELSE {Const(ty.w, 0)})
        /\ depth = 0

IntOps  == {"fetch_add", "fetch_sub", "fetch_and", "fetch_nand", "fetch_or", "fetch_xor", "fetch_max", "fetch_min"}
BoolOps == {"fetch_and", "fetch_nand", "fetch_or", "fetch_xor"}
RmwOps  == IF ty.kind = "int" THEN IntOps ELSE IF IsBool THEN BoolOps ELSE {}

RmwResult(op, a, v) ==
  CASE op = "fetch_add"  -> LAdd(a, v)
    [] op = "fetch_sub"  -> LSub(a, v)
    [] op = "fetch_and"  -> LAnd(a, v)
    [] op = "fetch_nand" -> Nand(a, v)
    [] op = "fetch_or"   -> LOr(a, v)
    [] op = "fetch_xor"  -> LXor(a, v)
    [] op = "fetch_max"  -> LMax(a, v)
    [] op = "fetch_min"  -> LMin(a, v)

\* the closures used with fetch_update
UpdFns == {"inc", "none", "zero", "ifodd"}
Upd(f, a) == CASE f = "inc"   -> [some |-> TRUE, v |-> IF IsBool THEN [i \in Idx |-> 1 - a[i]] ELSE LAdd(a, One)]
               [] f = "none"  -> [some |-> FALSE, v |-> a]
               [] f = "zero"  -> [some |-> TRUE, v |-> Zero]
               [] f = "ifodd" -> [some |-> a[1] % 2 = 1, v |-> LXor(a, One)]

\* one printed transition: ok = -1 plain value, 1 Ok(..), 0 Err(..); r = <<>>: returns nothing
T(op, f, a, b, r, ok, n) ==
  /\ PrintT(<<"TR", ToJson([t |-> ty.name, v |-> val, op |-> op, f |-> f, a |-> a, b |-> b, r |-> r, ok |-> ok, n |-> n])>>)
  /\ val' = n
  /\ depth' = depth + 1
  /\ UNCHANGED ty

Next ==
  /\ depth < MaxDepth
  /\ \/ T("load", "", <<>>, <<>>, val, -1, val)
     \/ T("unsync_load", "", <<>>, <<>>, val, -1, val)
     \/ \E v \in Operands : T("store", "", v, <<>>, <<>>, -1, v)
     \/ \E v \in Operands : T("with_mut", "", v, <<>>, <<>>, -1, v)
     \/ \E v \in Operands : T("swap", "", v, <<>>, val, -1, v)
     \/ \E c \in Operands \cup {val}, n \in Operands :
          \/ T("compare_exchange", "", c, n, val, IF val = c THEN 1 ELSE 0, IF val = c THEN n ELSE val)
          \/ T("compare_exchange_weak", "", c, n, val, IF val = c THEN 1 ELSE 0, IF val = c THEN n ELSE val)
          \/ T("compare_and_swap", "", c, n, val, -1, IF val = c THEN n ELSE val)
     \/ \E op \in RmwOps, v \in Operands : T(op, "", v, <<>>, val, -1, RmwResult(op, val, v))
     \/ \E f \in UpdFns : LET u == Upd(f, val) IN
          T("fetch_update", f, <<>>, <<>>, val, IF u.some THEN 1 ELSE 0, IF u.some THEN u.v ELSE val)

Spec == Init /\ [][Next]_avars

\* sanity of the arithmetic itself (checked by TLC on every reachable value)
ArithOK == /\ LSub(LAdd(val, One), One) = val
           /\ LAdd(val, LNeg(val)) = Zero
           /\ LNot(LNot(val)) = val
           /\ ~Less(val, val)
           /\ (ty.kind = "int" => (Less(SMin, SMax) = ty.signed \/ W = 0))
           /\ LMax(val, val) = val
=============================================================================
