------------------------------ MODULE CheckLoop ------------------------------
(***************************************************************************)
(* The iteration loop of Builder::check (model.rs), one action per phase:  *)
(*   Top : if i % interval = 0 { store checkpoint; stop if i >= max_perms; *)
(*         stop if elapsed >= max_duration }                               *)
(*   Run : run iteration i; check leaks; i += 1; execution.step() or stop  *)
(* against an exploration that needs exactly n iterations.  TLC checks the *)
(* closed form Explore!LoopIterations and that the loop stops no later     *)
(* than the first checkpoint boundary after the limit is reached (C19),    *)
(* and prints, for every configuration of the grid, how many iterations    *)
(* run and which iteration's path the last stored checkpoint holds (C13);  *)
(* the harness compares those numbers with real runs.                      *)
(***************************************************************************)
EXTENDS Explore
CONSTANT Grid            \* set of <<n, m, c, d>>: iterations needed, max_permutations (0 = unset),
                         \* checkpoint_interval, d = 1 iff max_duration = 0
VARIABLES g, i, ran, stored, phase
lvars == <<g, i, ran, stored, phase>>

Init == g \in Grid /\ i = 1 /\ ran = 0 /\ stored = 0 /\ phase = "top"

Top == /\ phase = "top"
       /\ IF i % g[3] = 0
          THEN /\ stored' = i
               /\ phase' = IF (g[2] # 0 /\ i >= g[2]) \/ g[4] = 1 THEN "returned" ELSE "run"
          ELSE phase' = "run" /\ UNCHANGED stored
       /\ UNCHANGED <<g, i, ran>>

Run == /\ phase = "run"
       /\ ran' = ran + 1 /\ i' = i + 1
       /\ phase' = IF ran + 1 < g[1] THEN "top" ELSE "returned"     \* step() finds nothing after the n-th iteration
       /\ UNCHANGED <<g, stored>>

Next == Top \/ Run
Spec == Init /\ [][Next]_lvars

Expected == IF g[4] = 1 THEN (IF g[3] - 1 < g[1] THEN g[3] - 1 ELSE g[1])
            ELSE IF g[2] = 0 THEN g[1] ELSE LoopIterations(g[1], g[2], g[3])
ClosedForm == phase = "returned" => ran = Expected
\* never later than the first boundary at or after the limit
NoLaterThanBoundary == (g[2] # 0 /\ g[4] = 0) => ran <= g[2] + g[3] - 1
\* a stored checkpoint always holds the path of the iteration about to run
StoredIsNext == stored # 0 => stored <= i
Emit == phase = "returned" => PrintT(<<"LIM", g[1], g[2], g[3], g[4], ran, stored>>)
=============================================================================
