---- MODULE MCSem ----
(* Model-checking wrapper: LoomSem instantiated on the generated batch MCProgs. *)
EXTENDS MCProgsMod
CONSTANTS Strong, ScMode, NotifySpur, CvAny
VARIABLES pid, pc, regs, st, sub, tv, scv, mo, mview, glued, relx, cells, ash, ob, end, out
M == INSTANCE LoomSem WITH Progs <- MCProgs
Spec == M!Spec
Report == M!Report
====
