------------------------------- MODULE Explore -------------------------------
(***************************************************************************)
(* The exploration engine of loom, shaped like the implementation:         *)
(*   rt/path.rs   (Path, Schedule, Load, Spurious, Thread statuses)        *)
(*   model.rs     (the Builder::check loop, checkpoint store/load, limits) *)
(* One operator per method of rt::Path, written as pure functions on a     *)
(* path record so that                                                     *)
(*   - ExploreMC.tla can run them as a state machine against an abstract,  *)
(*     lazily chosen decision tree (TLC checks NoRepeat, termination, the  *)
(*     preemption bound, frozen non-exploring branches, checkpoint         *)
(*     identity, the loop's limit arithmetic) and emit behaviours that are *)
(*     replayed into the real rt::Path through loom::verif::PathDriver;    *)
(*   - ExploreTrace.tla can validate the path snapshots that the iteration *)
(*     hook recorded during real loom::model runs.                         *)
(*                                                                         *)
(* A path is [br, pos, exploring, skipping, eos, bound, maxb]:             *)
(*   br    sequence of entries                                             *)
(*           [k |-> "S", th, pre, ia, prev, ex]   schedule branch          *)
(*           [k |-> "L", vals, pos, ex]           atomic-load branch       *)
(*           [k |-> "P", spur, ex]                spurious-wakeup branch   *)
(*         th: 5 statuses; ia: initial_active (thread index 1..5, 0 = None)*)
(*         prev: index of the previous schedule entry (0 = None)           *)
(*   pos   number of entries consumed in this iteration (Rust: pos)        *)
(*   eos   exploring_on_start;  bound: preemption bound, -1 = None         *)
(***************************************************************************)
EXTENDS Integers, Sequences, FiniteSets, TLC

NT == 5      \* rt::MAX_THREADS
Statuses == {"Disabled", "Skip", "Yield", "Pending", "Active", "Visited"}

SetMin(S) == CHOOSE x \in S : \A y \in S : x <= y
SetMax(S) == CHOOSE x \in S : \A y \in S : x >= y

Pad(seed) == [i \in 1..NT |-> IF i <= Len(seed) THEN seed[i] ELSE "Disabled"]

\* Schedule::active_thread_index (0 = None)
ActiveIdx(th) == LET A == {i \in 1..NT : th[i] = "Active"} IN IF A = {} THEN 0 ELSE SetMin(A)

\* Schedule::preemptions()
Preemptions(e) == IF e.ia # 0 /\ e.ia # ActiveIdx(e.th) THEN e.pre + 1 ELSE e.pre

\* Path::last_schedule (0 = None)
LastSched(br) == LET S == {i \in 1..Len(br) : br[i].k = "S"} IN IF S = {} THEN 0 ELSE SetMax(S)

NewPath(maxb, bound, exploring) ==
  [br |-> <<>>, pos |-> 0, exploring |-> exploring, skipping |-> FALSE, eos |-> exploring,
   bound |-> bound, maxb |-> maxb]

IsTraversed(p) == p.pos = Len(p.br)

(* ------------------------------------------------ Path::branch_thread *)
\* the schedule entry pushed for `seed` when the path is traversed
NewSched(p, seed) ==
  LET prev == LastSched(p.br)
      th0  == Pad(seed)
      Y    == {i \in 1..NT : th0[i] = "Yield"}
      th1  == IF ActiveIdx(th0) = 0 /\ Y # {} THEN [th0 EXCEPT ![SetMin(Y)] = "Active"] ELSE th0
      act  == ActiveIdx(th1)
      ia   == IF prev # 0 /\ act # ActiveIdx(p.br[prev].th) THEN 0 ELSE act
      pre  == IF prev # 0 THEN Preemptions(p.br[prev]) ELSE 0
  IN [k |-> "S", th |-> th1, pre |-> pre, ia |-> ia, prev |-> prev, ex |-> p.exploring]

\* result: [p, ret, err]; ret = thread to run (0 = None); err # "" models the panics of the code
BranchThread(p, seed) ==
  LET full == IsTraversed(p) /\ Len(p.br) >= p.maxb
      p1   == IF IsTraversed(p) /\ ~full THEN [p EXCEPT !.br = Append(@, NewSched(p, seed))] ELSE p
  IN IF full THEN [p |-> p, ret |-> 0, err |-> "branches"]
     ELSE IF p1.br[p1.pos + 1].k # "S" THEN [p |-> p1, ret |-> 0, err |-> "nondeterministic"]
     ELSE [p |-> [p1 EXCEPT !.pos = @ + 1], ret |-> ActiveIdx(p1.br[p1.pos + 1].th), err |-> ""]

(* ------------------------------------------- Path::push_load/branch_load *)
BranchLoad(p, seed) ==
  LET full == IsTraversed(p) /\ Len(p.br) >= p.maxb
      p1   == IF IsTraversed(p) /\ ~full
              THEN [p EXCEPT !.br = Append(@, [k |-> "L", vals |-> seed, pos |-> 0, ex |-> p.exploring])]
              ELSE p
  IN IF full THEN [p |-> p, ret |-> 0, err |-> "branches"]
     ELSE IF p1.br[p1.pos + 1].k # "L" THEN [p |-> p1, ret |-> 0, err |-> "nondeterministic"]
     ELSE [p |-> [p1 EXCEPT !.pos = @ + 1], ret |-> p1.br[p1.pos + 1].vals[p1.br[p1.pos + 1].pos + 1], err |-> ""]

(* ----------------------------------------------- Path::branch_spurious *)
BranchSpurious(p) ==
  LET full == IsTraversed(p) /\ Len(p.br) >= p.maxb
      p1   == IF IsTraversed(p) /\ ~full
              THEN [p EXCEPT !.br = Append(@, [k |-> "P", spur |-> FALSE, ex |-> p.exploring])]
              ELSE p
  IN IF full THEN [p |-> p, ret |-> FALSE, err |-> "branches"]
     ELSE IF p1.br[p1.pos + 1].k # "P" THEN [p |-> p1, ret |-> FALSE, err |-> "nondeterministic"]
     ELSE [p |-> [p1 EXCEPT !.pos = @ + 1], ret |-> p1.br[p1.pos + 1].spur, err |-> ""]

(* ---------------------------------------------------- Path::backtrack *)
Explore(s) == IF s = "Skip" THEN "Pending" ELSE s

\* Schedule::backtrack(thread t (1-based), bound)
SchedBacktrack(e, t, bound) ==
  IF bound # -1 /\ e.pre = bound THEN e
  ELSE IF t > NT THEN e
  ELSE IF e.th[t] # "Disabled" THEN [e EXCEPT !.th[t] = Explore(@)]
  ELSE [e EXCEPT !.th = [i \in 1..NT |-> Explore(e.th[i])]]

\* the conservative second backtrack point of bounded DPOR: walk the prev chain from `curr`
RECURSIVE Conservative(_, _, _, _)
Conservative(br, curr, t, bound) ==
  IF br[curr].prev # 0
  THEN LET prev == br[curr].prev IN
       IF ActiveIdx(br[curr].th) # ActiveIdx(br[prev].th) /\ br[curr].ex
       THEN [br EXCEPT ![curr] = SchedBacktrack(@, t, bound)]
       ELSE Conservative(br, prev, t, bound)
  ELSE IF br[curr].ex THEN [br EXCEPT ![curr] = SchedBacktrack(@, t, bound)] ELSE br

\* point: 1-based index of the entry of the last dependent access
Backtrack(p, point, t) ==
  LET C == {i \in 1..point : p.br[i].k = "S" /\ p.br[i].ex} IN
  IF C = {} THEN p
  ELSE LET i   == SetMax(C)
           br1 == [p.br EXCEPT ![i] = SchedBacktrack(@, t, p.bound)]
       IN IF br1[i].prev = 0 \/ p.bound = -1 THEN [p EXCEPT !.br = br1]
          ELSE [p EXCEPT !.br = Conservative(br1, br1[i].prev, t, p.bound)]

(* ----------------------------------- explore_state / critical / skip *)
ExploreState(p) == IF p.skipping THEN p ELSE [p EXCEPT !.exploring = TRUE]     \* asserts ~exploring
Critical(p)     == IF p.skipping THEN p ELSE [p EXCEPT !.exploring = FALSE]    \* asserts exploring
SkipBranch(p)   == [p EXCEPT !.exploring = FALSE, !.skipping = TRUE]

(* --------------------------------------------------------- Path::step *)
\* advance the deepest exploring entry that has an alternative left; everything above it is cut
RECURSIVE StepFrom(_, _)
StepFrom(br, i) ==
  IF i = 0 THEN [br |-> <<>>, ok |-> FALSE]
  ELSE LET e == br[i]  keep == SubSeq(br, 1, i) IN
       IF ~e.ex THEN StepFrom(br, i - 1)
       ELSE IF e.k = "S"
            THEN LET th1 == [j \in 1..NT |-> IF e.th[j] = "Active" THEN "Visited" ELSE e.th[j]]
                     Pn  == {j \in 1..NT : th1[j] = "Pending"}
                 IN IF Pn # {} THEN [br |-> [keep EXCEPT ![i].th = [th1 EXCEPT ![SetMin(Pn)] = "Active"]], ok |-> TRUE]
                    ELSE StepFrom(br, i - 1)
       ELSE IF e.k = "L"
            THEN IF e.pos + 1 < Len(e.vals) THEN [br |-> [keep EXCEPT ![i].pos = @ + 1], ok |-> TRUE]
                 ELSE StepFrom(br, i - 1)
       ELSE IF ~e.spur THEN [br |-> [keep EXCEPT ![i].spur = TRUE], ok |-> TRUE]
            ELSE StepFrom(br, i - 1)

\* result: [p, ok]
StepPath(p) ==
  LET r == StepFrom(p.br, Len(p.br)) IN
  [p |-> [p EXCEPT !.br = r.br, !.pos = 0, !.exploring = p.eos, !.skipping = FALSE], ok |-> r.ok]

(* --------------------------------------------------- decisions of a path *)
\* the alternative chosen at entry e, as a number (DFS order = order in which alternatives are tried)
Choice(e) == IF e.k = "S" THEN ActiveIdx(e.th) ELSE IF e.k = "L" THEN e.pos ELSE IF e.spur THEN 1 ELSE 0
Decisions(br) == [i \in 1..Len(br) |-> <<br[i].k, Choice(br[i])>>]

(* ---------------------------------------- Builder::check loop arithmetic *)
\* number of iterations run before the loop returns because of max_permutations = m with
\* checkpoint_interval = c, when the exploration itself would need n iterations:
\* the test `i >= m` is only made when i % c = 0, before running iteration i.
FirstStop(m, c) == LET S == {i \in 1..(m + c) : i % c = 0 /\ i >= m} IN SetMin(S)
LoopIterations(n, m, c) == IF FirstStop(m, c) - 1 < n THEN FirstStop(m, c) - 1 ELSE n
=============================================================================
