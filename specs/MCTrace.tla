---- MODULE MCTrace ----
(* Root module of trace validation: binds the generated program batch and the recording. *)
EXTENDS MCProgsMod, Json, IOUtils
CONSTANTS Strong, ScMode, NotifySpur, CvAny
VARIABLES pid, pc, regs, st, sub, tv, scv, mo, mview, glued, relx, cells, ash, ob, end, out, l, phase, lastT, pre, pb
TraceRec == ndJsonDeserialize(IOEnv.TRACE)
T == INSTANCE LoomSemTrace WITH Progs <- MCProgs, Rec <- TraceRec
Spec == T!TSpec
Track == T!Track
Accepted == T!Accepted
====
