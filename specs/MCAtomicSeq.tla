---- MODULE MCAtomicSeq ----
EXTENDS AtomicSeq
MCTypes == { [name |-> "u8", w |-> 1, signed |-> FALSE, kind |-> "int"], [name |-> "i8", w |-> 1, signed |-> TRUE, kind |-> "int"],
             [name |-> "u16", w |-> 2, signed |-> FALSE, kind |-> "int"], [name |-> "i16", w |-> 2, signed |-> TRUE, kind |-> "int"],
             [name |-> "u32", w |-> 4, signed |-> FALSE, kind |-> "int"], [name |-> "i32", w |-> 4, signed |-> TRUE, kind |-> "int"],
             [name |-> "u64", w |-> 8, signed |-> FALSE, kind |-> "int"], [name |-> "i64", w |-> 8, signed |-> TRUE, kind |-> "int"],
             [name |-> "usize", w |-> 8, signed |-> FALSE, kind |-> "int"], [name |-> "isize", w |-> 8, signed |-> TRUE, kind |-> "int"],
             [name |-> "bool", w |-> 1, signed |-> FALSE, kind |-> "bool"], [name |-> "ptr", w |-> 8, signed |-> FALSE, kind |-> "ptr"] }
====
