CONSTANTS
  Types <- MCTypes
  MaxDepth = 3
SPECIFICATION Spec
INVARIANT ArithOK
CHECK_DEADLOCK FALSE
