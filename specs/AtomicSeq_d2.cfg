CONSTANTS
  Types <- MCTypes
  MaxDepth = 2
SPECIFICATION Spec
INVARIANT ArithOK
CHECK_DEADLOCK FALSE
