CONSTANTS
  Types <- MCTypes
  MaxDepth = 1
SPECIFICATION Spec
INVARIANT ArithOK
CHECK_DEADLOCK FALSE
