---------------------------- MODULE ExploreTrace ----------------------------
(***************************************************************************)
(* Validates the path snapshots that the iteration hook of loom recorded   *)
(* during real Builder::check runs against Explore.tla:                    *)
(*   start(P)           beginning of a run (fresh, or resumed from a file) *)
(*   end(i, E)          iteration i has run; E = the executed path         *)
(*   step(i+1, S)       the path after execution.step()                    *)
(*   done(i)            step() found nothing left                          *)
(* Obligations: S = StepPath(E) exactly (C14: DFS successor; C13: this is  *)
(* also what a loaded checkpoint must continue from); the executed path E  *)
(* of the next iteration replays S and only adds backtrack marks / freshly *)
(* pushed entries built as Path::branch_* build them; decision sequences   *)
(* strictly increase in DFS order (no repetition); pushed schedules obey   *)
(* the preemption bound (C15); entries pushed with exploring = FALSE are   *)
(* frozen (C19); done only when StepPath says so (termination at the       *)
(* exhausted tree).                                                        *)
(***************************************************************************)
EXTENDS Explore

CONSTANT Rec            \* bound by the root module to ndJsonDeserialize(IOEnv.TRACE)

VARIABLES l,            \* next event
          last,         \* the previous event of the current run (or [k |-> "none"])
          cur           \* the path the engine must currently hold (after start / step)
evars == <<l, last, cur>>

Ev == Rec[l]
None == [k |-> "none"]

Init == l = 1 /\ last = None /\ cur = None /\ TLCSet(1, 1)

\* entry i of the executed path E may differ from the replayed entry s only by backtrack marks
SameOrMarked(s, e, bound) ==
  IF s.k # "S" THEN e = s
  ELSE /\ e.k = "S" /\ e.pre = s.pre /\ e.ia = s.ia /\ e.prev = s.prev /\ e.ex = s.ex
       /\ \A j \in 1..NT : \/ e.th[j] = s.th[j]
                           \/ /\ s.th[j] = "Skip" /\ e.th[j] = "Pending"
                              /\ s.ex                                  \* only exploring branches get marks
                              /\ (bound = -1 \/ s.pre < bound)         \* and only below the bound

\* entry i of E was pushed during this iteration: it must look like Path::branch_* builds it
WellPushed(br, i, bound) ==
  LET e == br[i] IN
  CASE e.k = "S" ->
         LET prev == LastSched(SubSeq(br, 1, i - 1))
             act  == ActiveIdx(e.th) IN
         /\ e.prev = prev
         /\ e.pre = (IF prev # 0 THEN Preemptions(br[prev]) ELSE 0)
         /\ e.ia = (IF prev # 0 /\ act # ActiveIdx(br[prev].th) THEN 0 ELSE act)
         /\ Cardinality({j \in 1..NT : e.th[j] = "Active"}) <= 1
         /\ \A j \in 1..NT : e.th[j] \in Statuses /\ e.th[j] # "Visited"
         /\ (bound # -1 => e.pre <= bound)                                  \* C15
         /\ (~e.ex => \A j \in 1..NT : e.th[j] # "Pending")                  \* C19: frozen
         /\ ((bound # -1 /\ e.pre = bound) => \A j \in 1..NT : e.th[j] # "Pending")
    [] e.k = "L" -> e.pos = 0 /\ Len(e.vals) >= 1
    [] e.k = "P" -> e.spur = FALSE
    [] OTHER -> FALSE

Extends(S, E) ==
  /\ Len(E.br) >= Len(S.br)
  /\ E.pos = Len(E.br)
  /\ E.bound = S.bound /\ E.eos = S.eos
  /\ \A i \in 1..Len(S.br) : SameOrMarked(S.br[i], E.br[i], S.bound)
  /\ \A i \in (Len(S.br) + 1)..Len(E.br) : WellPushed(E.br, i, S.bound)

\* strict DFS order between two executed paths: equal up to the advanced entry, which moved on
RECURSIVE FirstDiff(_, _, _)
FirstDiff(a, b, i) == IF i > Len(a) \/ i > Len(b) THEN 0 ELSE IF a[i] # b[i] THEN i ELSE FirstDiff(a, b, i + 1)
DfsLess(E1, E2) ==
  LET d == FirstDiff(Decisions(E1.br), Decisions(E2.br), 1) IN
  /\ d # 0
  /\ E1.br[d].k = E2.br[d].k
  /\ CASE E1.br[d].k = "S" -> E2.br[d].th[ActiveIdx(E1.br[d].th)] = "Visited"
       [] E1.br[d].k = "L" -> E2.br[d].pos > E1.br[d].pos
       [] OTHER -> E2.br[d].spur /\ ~E1.br[d].spur

EStart == /\ Ev.k = "start"
          /\ Ev.path.pos = 0
          /\ cur' = Ev.path /\ last' = [k |-> "start"]

EEnd == /\ Ev.k = "end" /\ cur # None
        /\ Extends(cur, Ev.path)
        /\ (last.k = "step" => DfsLess(last.epath, Ev.path))
        /\ last' = [k |-> "end", path |-> Ev.path, iter |-> Ev.iter]
        /\ UNCHANGED cur

EStep == /\ Ev.k = "step" /\ last.k = "end" /\ Ev.iter = last.iter + 1
         /\ LET r == StepPath(last.path) IN
            /\ r.ok
            /\ Ev.path = r.p
         /\ cur' = Ev.path
         /\ last' = [k |-> "step", epath |-> last.path]

EDone == /\ Ev.k = "done" /\ last.k = "end"
         /\ ~StepPath(last.path).ok
         /\ last' = None /\ cur' = None

\* a run that was cut (max_permutations / panic): the next event starts a new run
ECut == /\ Ev.k = "cut"
        /\ last' = None /\ cur' = None

Next == /\ l <= Len(Rec)
        /\ (EStart \/ EEnd \/ EStep \/ EDone \/ ECut)
        /\ l' = l + 1
Spec == Init /\ [][Next]_evars

Track == TLCSet(1, IF TLCGet(1) > l THEN TLCGet(1) ELSE l)
Accepted == IF TLCGet(1) = Len(Rec) + 1 THEN TRUE
            ELSE PrintT(<<"REJECT", TLCGet(1), Rec[TLCGet(1)].k>>) /\ FALSE
=============================================================================
