------------------------------ MODULE ExploreMC ------------------------------
(***************************************************************************)
(* The exploration engine (Explore.tla) run as a state machine against an  *)
(* abstract environment: a decision tree that is chosen lazily.  The first *)
(* visit of a decision prefix picks a node nondeterministically, every     *)
(* later visit (the replay of that prefix in a later iteration) must reuse *)
(* it - which is exactly loom's "the model must be deterministic"          *)
(* contract.  A node says what the execution does next at that prefix:     *)
(*   [k |-> "S", seed, bt, ctl]  Execution::schedule: first the backtrack  *)
(*        requests bt (set of <<point, thread>>) of the DPOR race          *)
(*        detection, then branch_thread(seed); ctl is an exploration       *)
(*        control call made just before ("", "critical", "explore", "skip")*)
(*   [k |-> "L", n]              an atomic load with n candidate stores    *)
(*   [k |-> "P"]                 Notify::wait's spurious decision          *)
(* A schedule whose seed has no runnable thread ends the iteration.        *)
(* TLC checks the invariants below over all small trees (exhaustive cfg)   *)
(* and over random deeper ones (-simulate); every finished behaviour is    *)
(* printed as one JSON line and replayed into the real rt::Path.           *)
(***************************************************************************)
EXTENDS Explore, Json

CONSTANTS NThreads,     \* threads of the abstract program (2..3)
          MaxDepth,     \* an iteration ends at the latest after this many branches
          BoundC,       \* preemption bound (99 = none; cfg files cannot hold -1)
          MaxIter,      \* safety net for termination: never reached
          Kinds,        \* subset of {"S", "L", "P"} the environment may answer with
          Ctl,          \* subset of {"", "critical", "explore", "skip"}
          MaxB,         \* max_branches
          NSalts        \* 0: the environment is chosen freely (exhaustive / simulation);
                        \* n > 0: n pseudo-random deterministic trees, one behaviour each

VARIABLES salt,         \* which pseudo-random tree (0 when the environment is free)
          p,            \* the path (Explore.tla record)
          env,          \* memo: decision prefix -> node
          phase,        \* "iter": inside an iteration; "ended": iteration complete; "done"; "panic"
          iter,         \* iteration number (1-based)
          seen,         \* decision sequences of the completed iterations
          log,          \* what to replay into the implementation
          frozen        \* set of <<index, entry>> pushed with ex = FALSE in this run (must never change)
mvars == <<salt, p, env, phase, iter, seen, log, frozen>>

Threads == 1..NThreads
Bound == IF BoundC = 99 THEN -1 ELSE BoundC
Prefix == Decisions(SubSeq(p.br, 1, p.pos))

\* seeds loom can produce: at most one Active; Skip only if some thread is Active
Seeds == {s \in [Threads -> {"Disabled", "Skip", "Yield", "Active"}] :
            /\ Cardinality({t \in Threads : s[t] = "Active"}) <= 1
            /\ ((\A t \in Threads : s[t] # "Active") => (\A t \in Threads : s[t] # "Skip"))}
EndSeed == [t \in Threads |-> "Disabled"]

Nodes(depth, pos) ==
  (IF "S" \in Kinds
   THEN {[k |-> "S", seed |-> s, bt |-> b, ctl |-> c] :
           s \in (IF depth >= MaxDepth THEN {EndSeed} ELSE Seeds),
           b \in {{}} \cup {{<<pt, t>>} : pt \in 1..pos, t \in Threads},
           c \in Ctl}
   ELSE {})
  \cup (IF "L" \in Kinds /\ depth < MaxDepth THEN {[k |-> "L", n |-> n] : n \in {1, 2, 7}} ELSE {})
  \cup (IF "P" \in Kinds /\ depth < MaxDepth THEN {[k |-> "P"]} ELSE {})

(* a deterministic pseudo-random tree: the node at a prefix is a function of a hash of the prefix *)
RECURSIVE HashSeq(_, _, _)
HashSeq(d, i, h) == IF i > Len(d) THEN h
                    ELSE HashSeq(d, i + 1, (h * 31 + (IF d[i][1] = "S" THEN 3 ELSE IF d[i][1] = "L" THEN 5 ELSE 7) * 11 + d[i][2] + 1) % 1000003)
Digit(h, k, m) == (h \div k) % m
NodeAt(d, sl, depth, pos) ==
  LET h  == HashSeq(d, 1, sl * 7919 + 13)
      kd == Digit(h, 1, 10)
      kind == IF depth >= MaxDepth THEN "S"
              ELSE IF kd >= 9 /\ "P" \in Kinds THEN "P" ELSE IF kd >= 6 /\ "L" \in Kinds THEN "L" ELSE "S"
      act == Digit(h, 10, NThreads + 2)                      \* 0 or > NThreads: no active thread
      raw == [t \in Threads |-> IF t = act THEN "Active"
                                ELSE LET q == Digit(h, 100 * (3 ^ t), 4) IN
                                     IF q = 0 THEN "Disabled" ELSE IF q = 3 THEN "Yield" ELSE "Skip"]
      seed == IF depth >= MaxDepth \/ Digit(h, 7, 9) = 0 THEN EndSeed
              ELSE IF act \in Threads THEN raw ELSE [t \in Threads |-> IF raw[t] = "Skip" THEN "Yield" ELSE raw[t]]
      bt == IF pos >= 1 /\ Digit(h, 13, 3) # 0 THEN {<<Digit(h, 17, pos) + 1, Digit(h, 19, NThreads) + 1>>} ELSE {}
      c  == LET q == Digit(h, 23, 9) IN IF q = 0 THEN "critical" ELSE IF q = 1 THEN "explore" ELSE IF q = 2 /\ Digit(h, 29, 3) = 0 THEN "skip" ELSE ""
  IN IF kind = "S" THEN [k |-> "S", seed |-> seed, bt |-> bt, ctl |-> IF c \in Ctl THEN c ELSE ""]
     ELSE IF kind = "L" THEN [k |-> "L", n |-> IF Digit(h, 37, 8) = 0 THEN 7 ELSE 1 + Digit(h, 31, 3)]   \* 7 = MAX_ATOMIC_HISTORY
     ELSE [k |-> "P"]

Init == /\ salt \in (IF NSalts = 0 THEN {0} ELSE 1..NSalts)
        /\ p = NewPath(MaxB, Bound, TRUE)
        /\ env = <<>>
        /\ phase = "iter" /\ iter = 1 /\ seen = {} /\ frozen = {}
        /\ log = << [a |-> "new", maxb |-> MaxB, bound |-> Bound, exploring |-> TRUE] >>

ApplyCtl(q, c) == CASE c = "critical" -> IF q.exploring \/ q.skipping THEN Critical(q) ELSE q
                    [] c = "explore"  -> IF ~q.exploring \/ q.skipping THEN ExploreState(q) ELSE q
                    [] c = "skip"     -> SkipBranch(q)
                    [] OTHER          -> q
\* which control call is really made (the code asserts the current mode)
EffCtl(q, c) == CASE c = "critical" -> IF q.exploring \/ q.skipping THEN "critical" ELSE ""
                  [] c = "explore"  -> IF ~q.exploring \/ q.skipping THEN "explore" ELSE ""
                  [] OTHER          -> c

RECURSIVE ApplyBts(_, _)
ApplyBts(q, S) == IF S = {} THEN q
                  ELSE LET b == CHOOSE b \in S : TRUE IN ApplyBts(Backtrack(q, b[1], b[2]), S \ {b})

\* one environment answer at the current prefix
Visit(node) ==
  LET q0 == p IN
  CASE node.k = "S" ->
         LET q1 == ApplyCtl(q0, node.ctl)
             q2 == ApplyBts(q1, node.bt)
             seedseq == [i \in 1..NThreads |-> node.seed[i]]
             r  == BranchThread(q2, seedseq)
         IN /\ p' = r.p
            /\ log' = log \o (IF EffCtl(q0, node.ctl) = "" THEN <<>> ELSE << [a |-> EffCtl(q0, node.ctl)] >>)
                          \o [i \in 1..Cardinality(node.bt) |->
                                LET b == CHOOSE b \in node.bt : TRUE IN [a |-> "backtrack", point |-> b[1] - 1, thread |-> b[2] - 1]]
                          \o << [a |-> "thread", seed |-> seedseq, ret |-> r.ret - 1, err |-> r.err] >>
            /\ phase' = IF r.err # "" THEN "panic" ELSE IF r.ret = 0 THEN "ended" ELSE "iter"
    [] node.k = "L" ->
         LET r == BranchLoad(q0, [i \in 1..node.n |-> i - 1]) IN
         /\ p' = r.p
         /\ log' = Append(log, [a |-> "load", n |-> node.n, ret |-> r.ret, err |-> r.err])
         /\ phase' = IF r.err # "" THEN "panic" ELSE "iter"
    [] node.k = "P" ->
         LET r == BranchSpurious(q0) IN
         /\ p' = r.p
         /\ log' = Append(log, [a |-> "spurious", ret |-> r.ret, err |-> r.err])
         /\ phase' = IF r.err # "" THEN "panic" ELSE "iter"

Advance ==
  /\ phase = "iter"
  /\ LET d == Prefix IN
     IF NSalts > 0 THEN Visit(NodeAt(d, salt, p.pos, p.pos)) /\ UNCHANGED env
     ELSE IF d \in DOMAIN env
     THEN Visit(env[d]) /\ UNCHANGED env
     ELSE \E node \in Nodes(p.pos, p.pos) :
            /\ Visit(node)
            /\ env' = (d :> node) @@ env
  /\ frozen' = frozen \cup {<<i, p'.br[i]>> : i \in {j \in (Len(p.br) + 1)..Len(p'.br) : ~p'.br[j].ex}}
  /\ UNCHANGED <<iter, seen, salt>>

\* end of an iteration: Execution::step
StepIter ==
  /\ phase = "ended"
  /\ LET r == StepPath(p) IN
     /\ p' = r.p
     /\ phase' = IF r.ok THEN "iter" ELSE "done"
     /\ log' = Append(log, [a |-> "step", ret |-> r.ok, snapshot |-> r.p.br, decisions |-> Decisions(p.br)])
  /\ seen' = seen \cup {Decisions(p.br)}
  /\ iter' = iter + 1
  /\ frozen' = {f \in frozen : f[1] <= Len(p'.br)}
  /\ UNCHANGED <<env, salt>>

Next == Advance \/ StepIter
Spec == Init /\ [][Next]_mvars

(* ----------------------------------------------------------- invariants *)
\* C14: never the same execution twice
NoRepeat == phase = "ended" => Decisions(p.br) \notin seen
\* C14: finite tree => the run ends (MaxIter is far above the number of leaves of any tree in the bound)
Terminates == iter <= MaxIter
\* C15: every pushed schedule respects the bound, by the engine's own count ...
WithinBound == Bound # -1 => \A i \in 1..Len(p.br) : p.br[i].k = "S" => p.br[i].pre <= Bound
\* ... and by an independent count over the executed prefix: switches away from a thread that the
\* seed of the next schedule still lists as runnable (not Disabled, not Yield)
SwitchCount ==
  LET S == {i \in 1..p.pos : p.br[i].k = "S"}
      Pr(i) == LET Q == {j \in S : j < i} IN IF Q = {} THEN 0 ELSE SetMax(Q)
  IN Cardinality({i \in S : /\ Pr(i) # 0
                            /\ ActiveIdx(p.br[Pr(i)].th) # 0
                            /\ ActiveIdx(p.br[i].th) # ActiveIdx(p.br[Pr(i)].th)
                            /\ p.br[i].th[ActiveIdx(p.br[Pr(i)].th)] \in {"Skip", "Pending", "Visited", "Active"}})
IndependentBound == (Bound # -1 /\ phase \in {"iter", "ended"}) => SwitchCount <= Bound + 0
\* C19: a branch pushed while not exploring is never advanced and never gets a Pending mark
Frozen == \A f \in frozen : f[1] <= Len(p.br) => p.br[f[1]] = f[2]
FrozenNoPending == \A i \in 1..Len(p.br) : (p.br[i].k = "S" /\ ~p.br[i].ex) => \A t \in 1..NT : p.br[i].th[t] # "Pending"
\* shape
TypeOK == /\ p.pos <= Len(p.br)
          /\ \A i \in 1..Len(p.br) : p.br[i].k = "S" =>
                /\ Cardinality({t \in 1..NT : p.br[i].th[t] = "Active"}) <= 1
                /\ p.br[i].prev = LastSched(SubSeq(p.br, 1, i - 1))

\* one line per finished behaviour, for the replay into rt::Path
Emit == phase \in {"done", "panic"} => PrintT(<<"REPLAY", ToJson(log)>>)
=============================================================================
