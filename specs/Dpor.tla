-------------------------------- MODULE Dpor --------------------------------
(***************************************************************************)
(* loom's partial-order reduction itself, shaped like the implementation:  *)
(*   rt/execution.rs  Execution::schedule (race detection against the last *)
(*                    dependent access, choice of the default thread, DPOR *)
(*                    clocks), Execution::new_thread                       *)
(*   rt/atomic.rs     State::{last_dependent_access, join_dependent_       *)
(*                    accesses, set_last_access}                           *)
(*   rt/mutex.rs      acquire / try_acquire / release (who gets blocked,   *)
(*                    who is made runnable)                                *)
(*   rt/mod.rs        branch, yield_now, thread_done                       *)
(* on top of Explore.tla (rt/path.rs: branch_thread, backtrack, step).     *)
(*                                                                         *)
(* One behaviour is one complete Builder::check run of one abstract        *)
(* program: per thread a straight-line sequence of                         *)
(*   ld o / st o            SeqCst load / store of atomic o                *)
(*   lock m / unlock m      Mutex (unlock is no scheduling point in loom)  *)
(*   trylock m / tunlock m  try_lock and the release of a successful one   *)
(*   yield                  thread::yield_now                              *)
(* Thread 1 is main: it spawns the others (no scheduling point) and then   *)
(* runs its own code.  An iteration ends when no thread can be scheduled.  *)
(* The run is repeated for every preemption bound of BoundList.            *)
(*                                                                         *)
(* TLC checks, over ALL programs of the configured scope:                  *)
(*   Complete  the unbounded run produces exactly the outcomes of the      *)
(*             full interleaving semantics (RefOutcomes) - C01, C05        *)
(*   Sound     every bounded run produces only such outcomes        - C15  *)
(*   Monotone  the result sets grow with the bound                  - C15  *)
(*   Saturates a bound >= the number of operations gives everything - C15  *)
(*   NoRepeat  no schedule is executed twice                        - C14  *)
(* The reduction rule is a parameter (Rule) so that the defects of the     *)
(* pinned tree can be reproduced at design level:                          *)
(*   "perthread"  the repaired rule (per-thread last loads)                *)
(*   "single"     the pinned tree's single last_access (finding F1)        *)
(***************************************************************************)
EXTENDS Explore, Json

CONSTANTS N,            \* threads including main (2..4)
          Progs,        \* set of programs: [1..N -> Seq([op, o])]
          BoundList,    \* sequence of preemption bounds to run in turn (99 = none)
          Rule,         \* "perthread" | "single"
          Emit          \* TRUE: print one JSON line per finished behaviour (for the conformance replay)

VARIABLES prog, refo, bi, path, ex, results, scheds, resB, phase
dvars == <<prog, refo, bi, path, ex, results, scheds, resB, phase>>

Thr == 1..N
NoOp == [op |-> "none", o |-> "none"]
ZeroVV == [t \in Thr |-> 0]
NoAcc == [pid |-> 0, vv |-> ZeroVV]
Leq(a, b) == \A t \in Thr : a[t] <= b[t]
Join(a, b) == [t \in Thr |-> IF a[t] >= b[t] THEN a[t] ELSE b[t]]
Code(t) == prog[t]
AllOps == UNION {{Code(t)[i] : i \in 1..Len(Code(t))} : t \in Thr}
Atoms == {i.o : i \in {j \in AllOps : j.op \in {"ld", "st"}}}
Mtxs == {i.o : i \in {j \in AllOps : j.op \in {"lock", "unlock", "trylock", "tunlock"}}}
Rws == {i.o : i \in {j \in AllOps : j.op \in {"read", "write", "tryread", "trywrite", "unlockr", "unlockw", "tunlockr", "tunlockw"}}}
Ntfs == {i.o : i \in {j \in AllOps : j.op \in {"ntf", "join", "nwait", "notify"}}}
\* Condvar::wait(cv, m) is three instructions here: "cvwait" cv (scheduling point on the condvar; enqueue + release m),
\* "cvblock" (rt::block: the thread blocks, a second call of schedule), "lock" m (re-acquisition: an ordinary lock)
Cvs == {i.o : i \in {j \in AllOps : j.op \in {"cvwait", "notify1", "notifyall"}}}         \* the Notify of a JoinHandle: notified once, by the ending thread
Chans == {i.o : i \in {j \in AllOps : j.op \in {"send", "recv", "tryrecv", "droprx"}}}
Arcs == {i.o : i \in {j \in AllOps : j.op \in {"aclone", "adrop", "acount"}}}
\* access slots of channels and Arcs: <<object, class, thread>> (thread 0: one slot for all threads)
SlotKeys == UNION {{<<c, "send", 0>>, <<c, "recv", 0>>, <<c, "try", 0>>} : c \in Chans}
            \cup UNION {{<<a, "dec", 0>>} \cup {<<a, k, t>> : k \in {"inc", "ins"}, t \in Thr} : a \in Arcs}
IsSlotOp(i) == i.op \in {"send", "recv", "drain", "tryrecv", "aclone", "adrop", "acount"}
\* rt/mpsc.rs State::dependent_accesses, rt/arc.rs State::dependent_accesses
DepKeys(i) ==
  CASE i.op = "send"    -> {<<i.o, "send", 0>>, <<i.o, "try", 0>>}
    [] i.op \in {"recv", "drain"} -> {<<i.o, "recv", 0>>}
    [] i.op = "tryrecv" -> {<<i.o, "recv", 0>>, <<i.o, "send", 0>>}
    [] i.op = "aclone"  -> {<<i.o, "ins", t>> : t \in Thr}
    [] i.op = "adrop"   -> {<<i.o, "dec", 0>>} \cup {<<i.o, "ins", t>> : t \in Thr}
    [] i.op = "acount"  -> {<<i.o, "dec", 0>>} \cup {<<i.o, "inc", t>> : t \in Thr}
\* ... set_last_access
SetKeys(i, t) ==
  CASE i.op = "send"    -> {<<i.o, "send", 0>>}
    [] i.op \in {"recv", "drain"} -> {<<i.o, "recv", 0>>}
    [] i.op = "tryrecv" -> {<<i.o, "recv", 0>>, <<i.o, "try", 0>>}
    [] i.op = "aclone"  -> {<<i.o, "inc", t>>}
    [] i.op = "adrop"   -> {<<i.o, "dec", 0>>}
    [] i.op = "acount"  -> {<<i.o, "ins", t>>}
\* main may do things before it spawns the others (pseudo-operation "spawnall", no scheduling point); without it
\* all threads exist from the start
HasSpawn == \E i \in 1..Len(Code(1)) : Code(1)[i].op = "spawnall"
BoundOf(i) == IF BoundList[i] = 99 THEN -1 ELSE BoundList[i]
StVal(t, i) == 10 * t + i                      \* every store writes its own value

(* ------------------------------------------------------------ execution *)
Ex0 == [pc |-> [t \in Thr |-> 1],
        st |-> [t \in Thr |-> IF t = 1 \/ ~HasSpawn THEN "runnable" ELSE "unspawned"],
        op |-> [t \in Thr |-> NoOp],
        vv |-> [t \in Thr |-> ZeroVV],
        yc |-> [t \in Thr |-> 0],
        active |-> 1,
        val |-> [o \in Atoms |-> 0],
        holder |-> [m \in Mtxs |-> 0],
        rw |-> [l \in Rws |-> [w |-> 0, r |-> {}]],         \* RwLock: writer, set of readers
        cvq |-> [c \in Cvs |-> <<>>],                       \* Condvar::waiters (FIFO)
        la |-> [o \in Atoms \cup Mtxs \cup Ntfs \cup Rws \cup Cvs |-> NoAcc],  \* last_access
        ls |-> [o \in Atoms |-> NoAcc],                      \* last_non_load_access
        ll |-> [o \in Atoms |-> [t \in Thr |-> NoAcc]],      \* last_load_accesses
        acc |-> [k \in SlotKeys |-> NoAcc],                 \* channel / Arc access slots
        chq |-> [c \in Chans |-> <<>>],                     \* queued messages
        closed |-> [c \in Chans |-> FALSE],                 \* receiver dropped
        cnt |-> [a \in Arcs |-> 1],                        \* strong count: main creates the Arc (and clones it for the others)
        ntfd |-> [j \in Ntfs |-> FALSE],                    \* Notify::notified (the JoinHandle's Notify: never spurious)
        spurred |-> [j \in Ntfs |-> FALSE],                 \* Notify::did_spur (sync::Notify: one spurious return per object)
        tok |-> [t \in Thr |-> FALSE],                      \* park token
        parked |-> [t \in Thr |-> FALSE],
        ctl |-> <<>>,                                        \* exploration-control calls made since the last scheduling point
        regs |-> [t \in Thr |-> <<>>],
        sched |-> <<>>]                                      \* threads chosen so far (history)

\* Mutex::release_lock
Release(e, a, m) ==
  [e EXCEPT !.holder[m] = 0,
            !.st = [t \in Thr |-> IF t # a /\ e.op[t].o = m THEN "runnable" ELSE e.st[t]]]

\* RwLock::release_read_lock / release_write_lock: waiters are woken when the lock becomes free
WakeRw(e, a, l) == [e EXCEPT !.st = [t \in Thr |-> IF t # a /\ e.op[t].o = l THEN "runnable" ELSE e.st[t]]]
ReleaseR(e, a, l) == LET e1 == [e EXCEPT !.rw[l].r = @ \ {a}] IN IF e1.rw[l].r = {} THEN WakeRw(e1, a, l) ELSE e1
ReleaseW(e, a, l) == WakeRw([e EXCEPT !.rw[l].w = 0], a, l)

\* the active thread runs up to its next scheduling point: unlocks are executed on the way
RECURSIVE RunToBranch(_, _)
RunToBranch(e, a) ==
  IF e.pc[a] > Len(Code(a)) THEN e
  ELSE LET ins == Code(a)[e.pc[a]] IN
       IF ins.op = "unlock" THEN RunToBranch([Release(e, a, ins.o) EXCEPT !.pc[a] = @ + 1], a)
       ELSE IF ins.op = "tunlock"
            THEN RunToBranch([(IF e.holder[ins.o] = a THEN Release(e, a, ins.o) ELSE e) EXCEPT !.pc[a] = @ + 1], a)
       ELSE IF ins.op = "unlockr" THEN RunToBranch([ReleaseR(e, a, ins.o) EXCEPT !.pc[a] = @ + 1], a)
       ELSE IF ins.op = "unlockw" THEN RunToBranch([ReleaseW(e, a, ins.o) EXCEPT !.pc[a] = @ + 1], a)
       ELSE IF ins.op = "tunlockr"
            THEN RunToBranch([(IF a \in e.rw[ins.o].r THEN ReleaseR(e, a, ins.o) ELSE e) EXCEPT !.pc[a] = @ + 1], a)
       ELSE IF ins.op = "tunlockw"
            THEN RunToBranch([(IF e.rw[ins.o].w = a THEN ReleaseW(e, a, ins.o) ELSE e) EXCEPT !.pc[a] = @ + 1], a)
       \* loom::stop_exploring / explore / skip_branch act on the path at once; no scheduling point
       ELSE IF ins.op \in {"stopx", "explore", "skipb"}
            THEN RunToBranch([e EXCEPT !.ctl = Append(@, ins.op), !.pc[a] = @ + 1], a)
       \* thread::spawn is no scheduling point; Execution::new_thread: the child inherits the spawner's DPOR clock
       ELSE IF ins.op = "spawnall"
            THEN RunToBranch([e EXCEPT !.pc[a] = @ + 1,
                                       !.st = [u \in Thr |-> IF e.st[u] = "unspawned" THEN "runnable" ELSE e.st[u]],
                                       !.vv = [u \in Thr |-> IF e.st[u] = "unspawned" THEN e.vv[a] ELSE e.vv[u]]], a)
       \* Thread::unpark is no scheduling point: wake the target if it is parked, else leave the token
       ELSE IF ins.op = "unpark"
            THEN LET u == ins.o IN
                 RunToBranch([(IF e.parked[u] THEN [e EXCEPT !.parked[u] = FALSE, !.st[u] = "runnable"]
                               ELSE [e EXCEPT !.tok[u] = TRUE]) EXCEPT !.pc[a] = @ + 1], a)
       \* thread::park with a token: consumed, no scheduling point
       ELSE IF ins.op = "park" /\ e.tok[a]
            THEN RunToBranch([e EXCEPT !.tok[a] = FALSE, !.pc[a] = @ + 1], a)
       \* Receiver::drop: drain (one recv per queued message), then close
       ELSE IF ins.op = "droprx" /\ e.chq[ins.o] = <<>>
            THEN RunToBranch([e EXCEPT !.closed[ins.o] = TRUE, !.pc[a] = @ + 1], a)
            ELSE e

\* ... and announces its next operation (rt::branch closure / yield_now / thread_done)
Arrive(e0, a) ==
  LET e == RunToBranch(e0, a) IN
  IF e.pc[a] > Len(Code(a)) THEN [e EXCEPT !.op[a] = NoOp, !.st[a] = "terminated"]
  ELSE LET ins == Code(a)[e.pc[a]] IN
       CASE ins.op = "yield" -> [e EXCEPT !.op[a] = NoOp, !.st[a] = "yield", !.yc[a] = @ + 1, !.pc[a] = @ + 1]
         [] ins.op = "lock"  -> [e EXCEPT !.op[a] = ins, !.st[a] = IF e.holder[ins.o] # 0 THEN "blocked" ELSE @]
         [] ins.op = "read"  -> [e EXCEPT !.op[a] = ins, !.st[a] = IF e.rw[ins.o].w # 0 THEN "blocked" ELSE @]
         [] ins.op = "write" -> [e EXCEPT !.op[a] = ins, !.st[a] = IF e.rw[ins.o].w # 0 \/ e.rw[ins.o].r # {} THEN "blocked" ELSE @]
         [] ins.op = "recv"  -> [e EXCEPT !.op[a] = ins, !.st[a] = IF e.chq[ins.o] = <<>> THEN "blocked" ELSE @]
         \* JoinHandle::join = Notify::wait: branch_opaque if already notified, else blocked
         [] ins.op = "join"  -> [e EXCEPT !.op[a] = ins, !.st[a] = IF ~e.ntfd[ins.o] THEN "blocked" ELSE @]
         [] ins.op = "droprx" -> [e EXCEPT !.op[a] = [op |-> "drain", o |-> ins.o]]       \* non-empty (RunToBranch)
         [] ins.op = "park"  -> [e EXCEPT !.op[a] = NoOp, !.st[a] = "blocked", !.parked[a] = TRUE, !.pc[a] = @ + 1]
         \* rt::block inside Condvar::wait - unless a notification came between the release and this point
         [] ins.op = "cvblock" -> [e EXCEPT !.op[a] = NoOp, !.st[a] = "blocked", !.pc[a] = @ + 1]
         [] OTHER            -> [e EXCEPT !.op[a] = ins]

(* ------------------------------------------------- object access tracking *)
IsAtomOp(i) == i.op \in {"ld", "st"}
Dependents(e, o) == {a \in {e.ls[o]} \cup {e.ll[o][t] : t \in Thr} : a.pid # 0}

\* Store::last_dependent_access
SlotDeps(e, ins) == {a \in {e.acc[k] : k \in DepKeys(ins)} : a.pid # 0}
LastDep(e, ins, v) ==
  IF IsSlotOp(ins)
  THEN LET C == {a \in SlotDeps(e, ins) : ~Leq(a.vv, v)} IN
       IF C = {} THEN NoAcc ELSE CHOOSE a \in C : \A b \in C : b.pid <= a.pid
  ELSE IF ~IsAtomOp(ins) THEN e.la[ins.o]
  ELSE IF Rule = "single" THEN (IF ins.op = "ld" THEN e.ls[ins.o] ELSE e.la[ins.o])
  ELSE IF ins.op = "ld" THEN e.ls[ins.o]
  ELSE LET C == {a \in Dependents(e, ins.o) : ~Leq(a.vv, v)} IN
       IF C = {} THEN e.la[ins.o] ELSE CHOOSE a \in C : \A b \in C : b.pid <= a.pid

RECURSIVE JoinAll(_, _)
JoinAll(v, S) == IF S = {} THEN v ELSE LET a == CHOOSE a \in S : TRUE IN JoinAll(Join(v, a.vv), S \ {a})

\* Store::join_dependent_accesses
JoinDep(e, ins, v) ==
  IF IsSlotOp(ins) THEN JoinAll(v, SlotDeps(e, ins))
  ELSE IF ~IsAtomOp(ins) \/ Rule = "single" THEN Join(v, LastDep(e, ins, v).vv)
  ELSE IF ins.op = "ld" THEN Join(v, e.ls[ins.o].vv)
  ELSE JoinAll(v, Dependents(e, ins.o))

\* Store::set_last_access
SetLast(e, ins, t, pid, v) ==
  LET a == [pid |-> pid, vv |-> v]
      e1 == IF IsSlotOp(ins) THEN e ELSE [e EXCEPT !.la[ins.o] = a] IN
  IF IsSlotOp(ins) THEN [e EXCEPT !.acc = [k \in SlotKeys |-> IF k \in SetKeys(ins, t) THEN a ELSE e.acc[k]]]
  ELSE IF ~IsAtomOp(ins) THEN e1
  ELSE IF ins.op = "ld" THEN [e1 EXCEPT !.ll[ins.o][t] = a]
  ELSE [e1 EXCEPT !.ls[ins.o] = a]

(* --------------------------------------------------- Execution::schedule *)
\* race detection: for every thread with a pending operation, ask for a backtrack point at the
\* last dependent access that does not happen-before it
RECURSIVE Races(_, _, _)
Races(p, e, t) ==
  IF t > N THEN p
  ELSE IF e.op[t] = NoOp THEN Races(p, e, t + 1)
  ELSE LET a == LastDep(e, e.op[t], e.vv[t]) IN
       IF a.pid = 0 \/ Leq(a.vv, e.vv[t]) THEN Races(p, e, t + 1)
       ELSE Races(Backtrack(p, a.pid, t), e, t + 1)

\* the default continuation: the active thread if runnable, else the runnable thread that yielded least
Initial(e) ==
  IF e.st[e.active] = "runnable" THEN e.active
  ELSE LET R == {t \in Thr : e.st[t] = "runnable"} IN
       IF R = {} THEN 0
       ELSE CHOOSE t \in R : \A u \in R : e.yc[t] < e.yc[u] \/ (e.yc[t] = e.yc[u] /\ t <= u)

SeedOf(e, init) ==
  [t \in Thr |-> IF t = init THEN "Active"
                 ELSE IF e.st[t] = "yield" THEN "Yield"
                 ELSE IF e.st[t] # "runnable" THEN "Disabled"
                 ELSE "Skip"]

\* result: [p, e, next]
RECURSIVE ApplyCtl(_, _)
ApplyCtl(p, c) ==
  IF c = <<>> THEN p
  ELSE ApplyCtl(CASE Head(c) = "stopx"   -> Critical(p)
                  [] Head(c) = "explore" -> ExploreState(p)
                  [] OTHER               -> SkipBranch(p), Tail(c))

\* Arrive, with the one operation that consults the path before its scheduling point: sync::Notify::wait first takes the
\* spurious decision (Path::branch_spurious, a branch of its own kind; once per object), a spurious return is a yield_now
ArriveP(p, e0, a) ==
  LET e == RunToBranch(e0, a) IN
  IF e.pc[a] <= Len(Code(a)) /\ Code(a)[e.pc[a]].op = "nwait"
  THEN LET ins   == Code(a)[e.pc[a]]
           p0    == ApplyCtl(p, e.ctl)
           ec    == [e EXCEPT !.ctl = <<>>]
           waitb == [ec EXCEPT !.op[a] = ins, !.st[a] = IF ~e.ntfd[ins.o] THEN "blocked" ELSE @]
       IN IF e.spurred[ins.o] THEN [p |-> p0, e |-> waitb]
          ELSE LET b == BranchSpurious(p0) IN
               \* the decision is part of the execution's decision sequence (-1: spurious, -2: not)
               IF b.ret THEN [p |-> b.p, e |-> [ec EXCEPT !.spurred[ins.o] = TRUE, !.op[a] = NoOp, !.st[a] = "yield",
                                                         !.yc[a] = @ + 1, !.pc[a] = @ + 1, !.sched = Append(@, -1)]]
               ELSE [p |-> b.p, e |-> [waitb EXCEPT !.sched = Append(@, -2)]]
  ELSE [p |-> p, e |-> Arrive(e0, a)]

Schedule(pin, ein) ==
  LET p0   == ApplyCtl(pin, ein.ctl)
      e    == [ein EXCEPT !.ctl = <<>>]
      p1   == Races(p0, e, 1)
      pid  == p1.pos + 1                       \* the entry this call consumes (rt: path.pos() before branch_thread)
      b    == BranchThread(p1, SeedOf(e, Initial(e)))
      nx   == b.ret
      e1   == [e EXCEPT !.active = nx, !.sched = Append(@, nx)]
      e2   == IF nx # 0 /\ e1.op[nx] # NoOp
              THEN LET v1 == JoinDep(e1, e1.op[nx], e1.vv[nx])
                       v2 == [v1 EXCEPT ![nx] = @ + 1]
                   IN SetLast([e1 EXCEPT !.vv[nx] = v2], e1.op[nx], nx, pid, v2)
              ELSE e1
      e3   == [e2 EXCEPT !.st = [t \in Thr |-> IF e2.st[t] = "yield" /\ t # nx THEN "runnable" ELSE e2.st[t]]]
  IN [p |-> b.p, e |-> e3, next |-> nx, err |-> b.err]

\* the scheduled thread performs its pending operation (Mutex::post_acquire for the lock operations)
\* (a thread about to try_lock is not blocked: the operation fails instead - Operation::is_nonblocking)
Acquire(e, t, m) ==
  [e EXCEPT !.holder[m] = t,
            !.st = [u \in Thr |-> IF u # t /\ e.op[u].o = m /\ e.op[u].op # "trylock" THEN "blocked" ELSE e.st[u]]]
Perform(e, t) ==
  LET ins == e.op[t] IN
  CASE ins.op = "ld"      -> [e EXCEPT !.regs[t] = Append(@, e.val[ins.o]), !.pc[t] = @ + 1]
    [] ins.op = "st"      -> [e EXCEPT !.val[ins.o] = StVal(t, e.pc[t]), !.pc[t] = @ + 1]
    [] ins.op = "lock"    -> [Acquire(e, t, ins.o) EXCEPT !.pc[t] = @ + 1]
    [] ins.op = "trylock" -> IF e.holder[ins.o] # 0 THEN [e EXCEPT !.regs[t] = Append(@, 0), !.pc[t] = @ + 1]
                             ELSE [Acquire(e, t, ins.o) EXCEPT !.regs[t] = Append(@, 1), !.pc[t] = @ + 1]
    \* Notify::notify: set the flag, wake (Thread::wake) whoever waits on this object
    [] ins.op = "ntf"     -> [e EXCEPT !.pc[t] = @ + 1, !.ntfd[ins.o] = TRUE,
                                       !.st = [u \in Thr |-> IF u # t /\ e.op[u].o = ins.o /\ e.st[u] \in {"blocked", "yield"}
                                                             THEN "runnable" ELSE e.st[u]]]
    [] ins.op \in {"join", "nwait"} -> [e EXCEPT !.pc[t] = @ + 1, !.ntfd[ins.o] = FALSE]
    [] ins.op = "notify"  -> [e EXCEPT !.pc[t] = @ + 1, !.ntfd[ins.o] = TRUE,
                                       !.st = [u \in Thr |-> IF u # t /\ e.op[u].o = ins.o /\ e.st[u] \in {"blocked", "yield"}
                                                             THEN "runnable" ELSE e.st[u]]]
    \* Condvar::wait after its scheduling point: enqueue, release the mutex (the one re-locked two instructions later)
    [] ins.op = "cvwait"  -> LET m == Code(t)[e.pc[t] + 2].o IN
                             [Release([e EXCEPT !.cvq[ins.o] = Append(@, t)], t, m) EXCEPT !.pc[t] = @ + 1]
    \* notify_one: Thread::wake of the first waiter (blocked / yield -> runnable); notify_all: of all of them
    [] ins.op = "notify1" -> IF e.cvq[ins.o] = <<>> THEN [e EXCEPT !.pc[t] = @ + 1]
                             ELSE LET w == Head(e.cvq[ins.o]) IN
                                  [e EXCEPT !.cvq[ins.o] = Tail(@), !.pc[t] = @ + 1,
                                            !.st[w] = IF @ \in {"blocked", "yield"} THEN "runnable" ELSE @]
    [] ins.op = "notifyall" -> [e EXCEPT !.cvq[ins.o] = <<>>, !.pc[t] = @ + 1,
                                         !.st = [u \in Thr |-> IF (\E k \in 1..Len(e.cvq[ins.o]) : e.cvq[ins.o][k] = u)
                                                                   /\ e.st[u] \in {"blocked", "yield"} THEN "runnable" ELSE e.st[u]]]
    \* RwLock::post_acquire_read_lock: pending writers are blocked; post_acquire_write_lock: everybody pending on the lock
    \* (pending try_read / try_write excepted: they fail instead of blocking)
    [] ins.op \in {"read", "tryread"} ->
         IF e.rw[ins.o].w # 0 THEN [e EXCEPT !.regs[t] = Append(@, 0), !.pc[t] = @ + 1]          \* only try_read gets here
         ELSE [e EXCEPT !.rw[ins.o].r = @ \cup {t}, !.pc[t] = @ + 1,
                        !.regs[t] = IF ins.op = "tryread" THEN Append(@, 1) ELSE @,
                        !.st = [u \in Thr |-> IF u # t /\ e.op[u].o = ins.o /\ e.op[u].op = "write"
                                              THEN "blocked" ELSE e.st[u]]]
    [] ins.op \in {"write", "trywrite"} ->
         IF e.rw[ins.o].w # 0 \/ e.rw[ins.o].r # {} THEN [e EXCEPT !.regs[t] = Append(@, 0), !.pc[t] = @ + 1]
         ELSE [e EXCEPT !.rw[ins.o].w = t, !.pc[t] = @ + 1,
                        !.regs[t] = IF ins.op = "trywrite" THEN Append(@, 1) ELSE @,
                        !.st = [u \in Thr |-> IF u # t /\ e.op[u].o = ins.o /\ e.op[u].op \notin {"tryread", "trywrite"}
                                              THEN "blocked" ELSE e.st[u]]]
    \* Channel::send: nothing is queued once the receiver is gone; the first message wakes the receiver
    [] ins.op = "send"    -> IF e.closed[ins.o] THEN [e EXCEPT !.pc[t] = @ + 1]
                             ELSE [e EXCEPT !.chq[ins.o] = Append(@, StVal(t, e.pc[t])), !.pc[t] = @ + 1,
                                            !.st = [u \in Thr |-> IF u # t /\ e.chq[ins.o] = <<>> /\ e.op[u].o = ins.o
                                                                  THEN "runnable" ELSE e.st[u]]]
    [] ins.op = "recv"    -> [e EXCEPT !.regs[t] = Append(@, Head(e.chq[ins.o])), !.chq[ins.o] = Tail(@), !.pc[t] = @ + 1]
    [] ins.op = "drain"   -> [e EXCEPT !.chq[ins.o] = Tail(@)]                        \* pc stays: the drop loop goes on
    [] ins.op = "tryrecv" -> IF e.chq[ins.o] = <<>> THEN [e EXCEPT !.regs[t] = Append(@, 0), !.pc[t] = @ + 1]
                             ELSE [e EXCEPT !.regs[t] = Append(@, Head(e.chq[ins.o])), !.chq[ins.o] = Tail(@), !.pc[t] = @ + 1]
    [] ins.op = "aclone"  -> [e EXCEPT !.cnt[ins.o] = @ + 1, !.pc[t] = @ + 1]
    [] ins.op = "adrop"   -> [e EXCEPT !.cnt[ins.o] = @ - 1, !.pc[t] = @ + 1]
    [] ins.op = "acount"  -> [e EXCEPT !.regs[t] = Append(@, e.cnt[ins.o]), !.pc[t] = @ + 1]
    [] OTHER              -> e

(* --------------------------------------------------- reference semantics *)
\* all outcomes of the program under full interleaving (sequentially consistent memory)
\* a thread's first scheduling as a step of its own only matters where some thread can yield
HasYield == \E i \in AllOps : i.op \in {"yield", "nwait"}
CtlOps == {"stopx", "explore", "skipb"}
HasCtl == \E i \in AllOps : i.op \in CtlOps
\* operations that are no scheduling points in loom.  In a program that uses exploration controls, what "a decision
\* inside the region" is can only be said in terms of loom's scheduling points, so there (and only there) the
\* reference executes them together with the step before them, as loom does; without controls they are steps of
\* their own (the semantics of the primitives: another thread may run between the last access and the unlock)
NbOps == IF HasCtl THEN {"unlock", "tunlock", "unlockr", "unlockw", "tunlockr", "tunlockw", "unpark"} ELSE {}

\* one operation of thread t in state c (the reference semantics of the primitives)
ExecRef(c, t) ==
  LET i == Code(t)[c.pc[t]]  s1 == [c EXCEPT !.pc[t] = @ + 1] IN
  CASE i.op = "ld"      -> [s1 EXCEPT !.regs[t] = Append(@, c.val[i.o])]
    [] i.op = "st"      -> [s1 EXCEPT !.val[i.o] = StVal(t, c.pc[t])]
    [] i.op = "lock"    -> [s1 EXCEPT !.holder[i.o] = t]
    [] i.op = "unlock"  -> [s1 EXCEPT !.holder[i.o] = 0]
    [] i.op = "trylock" -> IF c.holder[i.o] # 0 THEN [s1 EXCEPT !.regs[t] = Append(@, 0)]
                           ELSE [s1 EXCEPT !.holder[i.o] = t, !.regs[t] = Append(@, 1)]
    [] i.op = "tunlock" -> IF c.holder[i.o] = t THEN [s1 EXCEPT !.holder[i.o] = 0] ELSE s1
    [] i.op = "read"    -> [s1 EXCEPT !.rw[i.o].r = @ \cup {t}]
    [] i.op = "write"   -> [s1 EXCEPT !.rw[i.o].w = t]
    [] i.op = "tryread" -> IF c.rw[i.o].w # 0 THEN [s1 EXCEPT !.regs[t] = Append(@, 0)]
                           ELSE [s1 EXCEPT !.rw[i.o].r = @ \cup {t}, !.regs[t] = Append(@, 1)]
    [] i.op = "trywrite" -> IF c.rw[i.o].w # 0 \/ c.rw[i.o].r # {} THEN [s1 EXCEPT !.regs[t] = Append(@, 0)]
                            ELSE [s1 EXCEPT !.rw[i.o].w = t, !.regs[t] = Append(@, 1)]
    [] i.op \in {"unlockr", "tunlockr"} -> [s1 EXCEPT !.rw[i.o].r = @ \ {t}]
    [] i.op = "unlockw" -> [s1 EXCEPT !.rw[i.o].w = 0]
    [] i.op = "tunlockw" -> IF c.rw[i.o].w = t THEN [s1 EXCEPT !.rw[i.o].w = 0] ELSE s1
    [] i.op = "send"    -> IF c.closed[i.o] THEN s1 ELSE [s1 EXCEPT !.chq[i.o] = Append(@, StVal(t, c.pc[t]))]
    [] i.op = "recv"    -> [s1 EXCEPT !.regs[t] = Append(@, Head(c.chq[i.o])), !.chq[i.o] = Tail(@)]
    [] i.op = "tryrecv" -> IF c.chq[i.o] = <<>> THEN [s1 EXCEPT !.regs[t] = Append(@, 0)]
                           ELSE [s1 EXCEPT !.regs[t] = Append(@, Head(c.chq[i.o])), !.chq[i.o] = Tail(@)]
    [] i.op = "droprx"  -> [s1 EXCEPT !.chq[i.o] = <<>>, !.closed[i.o] = TRUE]
    [] i.op = "aclone"  -> [s1 EXCEPT !.cnt[i.o] = @ + 1]
    [] i.op = "adrop"   -> [s1 EXCEPT !.cnt[i.o] = @ - 1]
    [] i.op = "acount"  -> [s1 EXCEPT !.regs[t] = Append(@, c.cnt[i.o])]
    \* wait = atomically enqueue and release; it goes on (to the re-lock) once a notification has dequeued it.
    \* notify_one wakes the first waiter: loom's policy, one of those std allows
    [] i.op = "cvwait"  -> [s1 EXCEPT !.cvq[i.o] = Append(@, t), !.holder[Code(t)[c.pc[t] + 2].o] = 0]
    [] i.op = "notify1" -> IF c.cvq[i.o] = <<>> THEN s1 ELSE [s1 EXCEPT !.cvq[i.o] = Tail(@)]
    [] i.op = "notifyall" -> [s1 EXCEPT !.cvq[i.o] = <<>>]
    [] i.op = "ntf"     -> [s1 EXCEPT !.ntfd[i.o] = TRUE]
    [] i.op = "join"    -> [s1 EXCEPT !.ntfd[i.o] = FALSE]
    [] i.op = "notify"  -> [s1 EXCEPT !.ntfd[i.o] = TRUE]
    [] i.op = "nwait"   -> [s1 EXCEPT !.ntfd[i.o] = FALSE]                \* the real wake-up; the spurious return: RefFrom
    [] i.op = "park"    -> [s1 EXCEPT !.tok[t] = FALSE]
    [] i.op = "unpark"  -> [s1 EXCEPT !.tok[i.o] = TRUE]
    [] OTHER            -> s1

\* exploration-control calls are no operations of the program: a thread makes them on its way to its next
\* operation (loom: no scheduling point), i.e. together with the step before them - or, at the very start of a
\* thread, together with its first step
RECURSIVE RunCtl(_, _)
RunCtl(s, t) ==
  IF s.pc[t] > Len(Code(t)) THEN s
  ELSE LET i == Code(t)[s.pc[t]] IN
       IF i.op \in CtlOps
       THEN RunCtl([s EXCEPT !.pc[t] = @ + 1,
                             !.frozen = IF i.op \in {"stopx", "skipb"} THEN TRUE
                                        ELSE IF ~s.skipped THEN FALSE ELSE s.frozen,
                             !.skipped = s.skipped \/ i.op = "skipb"], t)
       ELSE IF i.op \in NbOps THEN RunCtl(ExecRef(s, t), t)
       ELSE s

RECURSIVE RefFrom(_)
RefFrom(s) ==
  LET Spawned == ~HasSpawn \/ (\E i \in 1..(s.pc[1] - 1) : Code(1)[i].op = "spawnall")
      Live == {t \in Thr : s.pc[t] <= Len(Code(t))}
      Cur(t) == RunCtl(s, t)                            \* after the leading control calls of t
      En == {t \in Live : LET c == Cur(t) IN
                             /\ (t = 1 \/ Spawned)
                             /\ (s.started[t] /\ c.pc[t] <= Len(Code(t))) =>
                                  LET i == Code(t)[c.pc[t]] IN
                                  /\ i.op = "lock" => s.holder[i.o] = 0
                                  /\ i.op = "join" => s.ntfd[i.o]
                                  /\ i.op = "nwait" => (s.ntfd[i.o] \/ ~s.spurred[i.o])
                                  /\ i.op = "cvblock" => ~(\E cv \in Cvs : \E k \in 1..Len(s.cvq[cv]) : s.cvq[cv][k] = t)
                                  /\ i.op = "read" => s.rw[i.o].w = 0
                                  /\ i.op = "write" => (s.rw[i.o].w = 0 /\ s.rw[i.o].r = {})
                                  /\ i.op = "recv" => s.chq[i.o] # <<>>
                                  /\ i.op = "park" => s.tok[t]}
      \* ... of which those that do not depend on a spurious return (possible once, never guaranteed): if there is
      \* none, the program may deadlock here
      EnS == {t \in En : LET c == Cur(t) IN
                         (s.started[t] /\ c.pc[t] <= Len(Code(t))) => (Code(t)[c.pc[t]].op = "nwait" => s.ntfd[Code(t)[c.pc[t]].o])}
      \* loom's reading of yield_now (and of a spurious Notify return, which is one): the thread gives way - if another
      \* thread can take a step, one does before the yielder goes on
      \* the first time a spawned thread is scheduled it only runs up to its first operation: a step of its own (it is
      \* what lets a thread that has just yielded go on)
      StepOf(t) == LET c == Cur(t) IN
                   IF ~s.started[t] THEN [c EXCEPT !.started[t] = TRUE, !.last = t, !.yld = 0] ELSE
                   [(IF c.pc[t] > Len(Code(t)) THEN c ELSE RunCtl(ExecRef(c, t), t))
                      EXCEPT !.last = t,
                             !.yld = IF c.pc[t] <= Len(Code(t)) /\ Code(t)[c.pc[t]].op = "yield" THEN t ELSE 0]
      \* Notify::wait may also return once per object without a notification (and without consuming one)
      Succ(t) == LET c == Cur(t) IN
                 IF s.started[t] /\ c.pc[t] <= Len(Code(t)) /\ Code(t)[c.pc[t]].op = "nwait"
                 THEN LET o == Code(t)[c.pc[t]].o IN
                      (IF s.ntfd[o] THEN {StepOf(t)} ELSE {})
                      \cup (IF ~s.spurred[o] THEN {[RunCtl([c EXCEPT !.pc[t] = @ + 1, !.spurred[o] = TRUE], t) EXCEPT !.last = t, !.yld = t]} ELSE {})
                 ELSE {StepOf(t)}
      \* between stop_exploring and explore (and after skip_branch, to the end) every decision is the default one:
      \* the thread that ran last goes on while it can, else the runnable thread with the lowest index;
      \* decisions outside such a region are all taken
      Others == En \ {s.yld}
      Pick == IF s.frozen THEN (IF s.last \in En THEN {s.last} ELSE {SetMin(En)})
              ELSE IF Others # {} THEN Others ELSE En
  IN IF Live = {} THEN {[end |-> "ok", regs |-> s.regs]}
     ELSE (IF EnS = {} THEN {[end |-> "deadlock", regs |-> <<>>]} ELSE {})
          \cup (IF En = {} THEN {} ELSE UNION {UNION {RefFrom(n) : n \in Succ(t)} : t \in Pick})
RefOutcomes == RefFrom([pc |-> Ex0.pc, val |-> Ex0.val, holder |-> Ex0.holder, rw |-> Ex0.rw, regs |-> Ex0.regs,
                        chq |-> Ex0.chq, closed |-> Ex0.closed, cnt |-> Ex0.cnt, tok |-> Ex0.tok, ntfd |-> Ex0.ntfd, spurred |-> Ex0.spurred, cvq |-> Ex0.cvq,
                        last |-> 1, frozen |-> FALSE, skipped |-> FALSE, yld |-> 0,
                        started |-> [t \in Thr |-> t = 1 \/ ~HasYield]])
NOps == LET RECURSIVE Sum(_) Sum(t) == IF t > N THEN 0 ELSE Len(Code(t)) + Sum(t + 1) IN Sum(1)

(* ---------------------------------------------------------- the machine *)
Init == /\ prog \in Progs
        /\ refo = RefOutcomes                  \* evaluated once per program
        /\ bi = 1
        /\ path = NewPath(1000, BoundOf(1), TRUE)
        /\ ex = Ex0
        /\ results = {} /\ scheds = {} /\ resB = <<>>
        /\ phase = "run"

NextBound ==
  IF bi < Len(BoundList)
  THEN /\ bi' = bi + 1 /\ path' = NewPath(1000, BoundOf(bi + 1), TRUE) /\ ex' = Ex0
       /\ results' = {} /\ scheds' = {} /\ phase' = "run"
  ELSE /\ phase' = "done" /\ UNCHANGED <<bi, path, ex, results, scheds>>

Step ==
  /\ phase = "run"
  /\ LET a1 == ArriveP(path, ex, ex.active)
         r  == Schedule(a1.p, a1.e)
     IN IF r.err # "" THEN /\ phase' = "panic" /\ UNCHANGED <<prog, refo, bi, path, ex, results, scheds, resB>>
        ELSE IF r.next # 0
        THEN /\ ex' = Perform(r.e, r.next) /\ path' = r.p
             /\ UNCHANGED <<prog, refo, bi, results, scheds, resB, phase>>
        ELSE LET dead == \E t \in Thr : r.e.st[t] # "terminated"
                 out  == IF dead THEN [end |-> "deadlock", regs |-> <<>>] ELSE [end |-> "ok", regs |-> r.e.regs]
                 res1 == results \cup {out}
                 s    == StepPath(r.p)
             IN /\ UNCHANGED <<prog, refo>>
                /\ IF dead \/ ~s.ok                               \* a deadlock panics: the run is over
                   THEN /\ resB' = Append(resB, [res |-> res1, iters |-> Cardinality(scheds) + 1,
                                                 repeat |-> r.e.sched \in scheds, scheds |-> scheds \cup {r.e.sched},
                                                 deadsched |-> IF dead THEN r.e.sched ELSE <<>>])
                        /\ NextBound
                   ELSE /\ results' = res1 /\ scheds' = scheds \cup {r.e.sched}
                        /\ path' = s.p /\ ex' = Ex0
                        /\ UNCHANGED <<bi, resB, phase>>

Done == phase \in {"done", "panic"} /\ UNCHANGED dvars
Next == Step \/ Done
Spec == Init /\ [][Next]_dvars

(* ------------------------------------------------------------ properties *)
NoPanic == phase # "panic"
NoRepeat == \A i \in 1..Len(resB) : ~resB[i].repeat /\ resB[i].iters = Cardinality(resB[i].scheds)

HasDead(S) == \E o \in S : o.end = "deadlock"
\* a run that hits a deadlock stops there: it is complete if it reports the deadlock
Covers(S, R) == IF HasDead(R) THEN HasDead(S) \/ S = R ELSE S = R
IsUnbounded(i) == BoundList[i] = 99
Complete == phase = "done" => \A i \in 1..Len(resB) : IsUnbounded(i) => /\ resB[i].res \subseteq refo
                                                                         /\ Covers(resB[i].res, refo)
Sound == phase = "done" => \A i \in 1..Len(resB) : resB[i].res \subseteq refo
\* 99 (no bound) is the largest bound
Monotone == phase = "done" => \A i, j \in 1..Len(resB) :
               BoundList[i] <= BoundList[j] =>
                 (HasDead(resB[i].res) \/ HasDead(resB[j].res) \/ resB[i].res \subseteq resB[j].res)
Saturates == phase = "done" => \A i \in 1..Len(resB) :
               (~IsUnbounded(i) /\ BoundList[i] >= NOps) => Covers(resB[i].res, refo)

Report == (Emit /\ phase = "done") =>
            PrintT(<<"DPOR", ToJson([prog |-> prog, ref |-> refo, runs |-> [i \in 1..Len(resB) |->
                        [bound |-> BoundList[i], iters |-> resB[i].iters, res |-> resB[i].res, scheds |-> resB[i].scheds, deadsched |-> resB[i].deadsched]]])>>)
=============================================================================
