--------------------------- MODULE LoomSemTrace ---------------------------
(***************************************************************************)
(* Trace validation: a recording of real loom iterations (events appended  *)
(* by the interpreter right after each loom call returned, in loom's real  *)
(* execution order) is accepted iff it is a behaviour of LoomSem.           *)
(*                                                                         *)
(* Events (one JSON object per line):                                      *)
(*   [k |-> "reset", p |-> program index]            start of an iteration *)
(*   [k |-> "op", t, pc, res]   instruction pc of thread t completed and   *)
(*                               returned res (-1: returns nothing)        *)
(*   [k |-> "end", e]            how loom ended the iteration: "ok",       *)
(*                               "deadlock", "race", "leak:*", "panic", "cut"*)
(* Unlogged nondeterminism (where a store goes in the modification order,  *)
(* when a condvar waiter enqueues, whether a Notify return was spurious)   *)
(* is chosen by the LoomSem actions; TLC searches depth-first.             *)
(***************************************************************************)
EXTENDS LoomSem

\* the recording, a sequence of event records.  It is a CONSTANT bound by the root module
\* (MCTrace: ndJsonDeserialize(IOEnv.TRACE)); defined there and not here because TLC caches a
\* constant definition only at the root - under INSTANCE it was re-read on every reference,
\* which made validation quadratic (600 s instead of 2 s for 6 000 events).
CONSTANT Rec

VARIABLES l,        \* next event to consume
          phase,    \* "run": inside an iteration, "ended": after its end event
          lastT,    \* thread of the previous recorded instruction (0: none yet)
          pre,      \* preemptions counted so far in this iteration, independently of loom (C15)
          pb        \* preemption bound this iteration ran under (-1: none), from the reset event
tvars == <<vars, l, phase, lastT, pre, pb>>

Ev == Rec[l]

PbOf(e) == IF "pb" \in DOMAIN e THEN e.pb ELSE -1

TInit == /\ Rec[1].k = "reset"
         /\ InitFor(Rec[1].p)
         /\ l = 2 /\ phase = "run"
         /\ lastT = 0 /\ pre = 0 /\ pb = PbOf(Rec[1])
         /\ TLCSet(1, 2)

\* The switch from thread u to another thread is a preemption if u "could have continued": its next
\* instruction is enabled in the spec state (not loom's notion of runnable) and is not a voluntary
\* yield (yield_now, a spin-loop round, Notify::wait whose spurious return is a yield, Condvar::wait
\* which blocks inside).  This op-level count can only be smaller than loom's branch-level count.
Voluntary(u) == Code(u)[pc[u]].op \in {"yield", "await", "nwait", "cvwait", "blockon", "lzget", "wake", "wakeslot", "wakeref"}
Preempted(u, t) == u # 0 /\ u # t /\ CanStep(u) /\ ~Voluntary(u)

\* a recorded instruction: the spec step of that thread must be enabled, must complete the
\* instruction and must be able to return the recorded value
TOp == /\ l <= Len(Rec) /\ phase = "run" /\ Ev.k = "op"
       /\ Ev.t \in Threads /\ Live(Ev.t) /\ pc[Ev.t] = Ev.pc
       /\ Step(Ev.t)
       /\ pc'[Ev.t] # pc[Ev.t]
       /\ end' = "run"
       /\ IF Ev.res = -1 THEN regs'[Ev.t] = regs[Ev.t]
          ELSE regs'[Ev.t] = Append(regs[Ev.t], Ev.res)
       \* when the recording says which way loom decided the spurious branch of this Notify::wait,
       \* the spec must take the same way (spurious return only if loom really took it)
       /\ (("spur" \in DOMAIN Ev /\ Ev.spur # -1 /\ Code(Ev.t)[pc[Ev.t]].op = "nwait") =>
             ((ob'.ntf[Code(Ev.t)[pc[Ev.t]].o].spurred # ob.ntf[Code(Ev.t)[pc[Ev.t]].o].spurred) <=> (Ev.spur = 1)))
       /\ pre' = IF Preempted(lastT, Ev.t) THEN pre + 1 ELSE pre
       /\ (pb # -1 => pre' <= pb)                \* C15: never more than the bound (for some explanation of the trace)
       /\ lastT' = Ev.t
       /\ l' = l + 1 /\ UNCHANGED <<phase, pb>>

\* unlogged inner step of a multi-step operation (Condvar::wait enqueue + unlock)
TSilent == /\ l <= Len(Rec) /\ phase = "run"
           /\ \E t \in Threads : /\ Live(t)
                                 /\ Code(t)[pc[t]].op \in {"cvwait", "lzget", "blockon", "wake", "wakeslot", "wakeref"}
                                 /\ Step(t) /\ pc'[t] = pc[t] /\ end' = "run"
           /\ UNCHANGED <<l, phase, lastT, pre, pb>>

\* the way loom ended the iteration must be what the spec state says
TEnd == /\ l <= Len(Rec) /\ phase = "run" /\ Ev.k = "end"
        /\ CASE Ev.e = "ok"       -> end = "run" /\ AllDone /\ LeakKinds = {} /\ UNCHANGED vars
             [] Ev.e = "deadlock" -> Deadlocked /\ UNCHANGED vars
             [] Ev.e \in {"leak:arc", "leak:alloc", "leak:msg"}
                                  -> end = "run" /\ AllDone /\ Ev.e \in LeakKinds /\ UNCHANGED vars
             [] Ev.e \in {"race", "panic", "usage"}
                                  -> \E t \in Threads : Step(t) /\ end' = Ev.e
             [] OTHER             -> UNCHANGED vars       \* "cut": the iteration was not finished
        /\ l' = l + 1 /\ phase' = "ended" /\ UNCHANGED <<lastT, pre, pb>>

TReset == /\ l <= Len(Rec) /\ phase = "ended" /\ Ev.k = "reset"
          /\ ResetTo(Ev.p)
          /\ l' = l + 1 /\ phase' = "run"
          /\ lastT' = 0 /\ pre' = 0 /\ pb' = PbOf(Ev)

TNext == TOp \/ TSilent \/ TEnd \/ TReset
TSpec == TInit /\ [][TNext]_tvars

\* furthest position reached (needs -workers 1)
Track == TLCSet(1, IF TLCGet(1) > l THEN TLCGet(1) ELSE l)
Accepted == IF TLCGet(1) = Len(Rec) + 1 THEN TRUE
            ELSE /\ PrintT(<<"REJECT", TLCGet(1), ToJson(Rec[TLCGet(1)])>>)
                 /\ FALSE
=============================================================================
