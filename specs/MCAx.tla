---- MODULE MCAx ----
EXTENDS MCProgsMod
CONSTANT RelSeqSame
VARIABLES pid, rf, mo
A == INSTANCE RC11Ax WITH Progs <- MCProgs
Spec == A!Spec
Report == A!Report
====
