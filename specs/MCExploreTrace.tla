---- MODULE MCExploreTrace ----
EXTENDS Json, IOUtils, TLC
VARIABLES l, last, cur
TraceRec == ndJsonDeserialize(IOEnv.TRACE)
T == INSTANCE ExploreTrace WITH Rec <- TraceRec
Spec == T!Spec
Track == T!Track
Accepted == T!Accepted
====
