CONSTANT RelSeqSame = TRUE
SPECIFICATION Spec
INVARIANT Report
CHECK_DEADLOCK FALSE
