------------------------------- MODULE MCDpor -------------------------------
(***************************************************************************)
(* Program spaces for Dpor.tla: every program whose threads are            *)
(* concatenations of blocks, modulo the order of the spawned threads.      *)
(***************************************************************************)
EXTENDS Dpor, SequencesExt

CONSTANTS Kinds,        \* block kinds, subset of {"ld", "st", "csld", "csst", "try", "yield", "cstry"}
          AtomNames, MtxNames,
          K,            \* blocks per spawned thread
          MainK,        \* blocks of main
          Ntf           \* TRUE: spawned threads end with the JoinHandle's notify (a scheduling point of its own)

I(op, o) == [op |-> op, o |-> o]
BlocksOf(k) ==
  CASE k = "ld"    -> {<<I("ld", o)>> : o \in AtomNames}
    [] k = "st"    -> {<<I("st", o)>> : o \in AtomNames}
    [] k = "csld"  -> {<<I("lock", m), I("ld", o), I("unlock", m)>> : o \in AtomNames, m \in MtxNames}
    [] k = "csst"  -> {<<I("lock", m), I("st", o), I("unlock", m)>> : o \in AtomNames, m \in MtxNames}
    [] k = "try"   -> {<<I("trylock", m), I("tunlock", m)>> : m \in MtxNames}
    [] k = "yield" -> {<<I("yield", "none")>>}
    [] k = "cs2"   -> {<<I("lock", m), I("ld", o), I("st", o), I("unlock", m)>> : o \in AtomNames, m \in MtxNames}
Blocks == UNION {BlocksOf(k) : k \in Kinds}
RECURSIVE Codes(_)
Codes(k) == IF k = 0 THEN {<<>>} ELSE {c \o b : c \in Codes(k - 1), b \in Blocks}
CodeSeq == SetToSeq(Codes(K))
EndOf(t) == IF Ntf THEN <<I("ntf", "j" \o ToString(t))>> ELSE <<>>
MCProgs == {[t \in 1..N |-> IF t = 1 THEN m ELSE CodeSeq[ix[t]] \o EndOf(t)] :
              m \in Codes(MainK),
              ix \in {f \in [2..N -> 1..Len(CodeSeq)] : \A t \in 2..(N - 1) : f[t] <= f[t + 1]}}
Bounds4 == <<0, 1, 2, 3, 99>>
BoundsNone == <<99>>
BoundsSat == <<0, 1, 2, 3, 4, 5, 6, 7, 8, 99>>
=============================================================================
