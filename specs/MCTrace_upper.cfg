CONSTANTS
  Strong = FALSE
  ScMode = "acqrel"
  NotifySpur = TRUE
  CvAny = TRUE
SPECIFICATION Spec
CONSTRAINT Track
POSTCONDITION Accepted
CHECK_DEADLOCK FALSE
