CONSTANTS
  NThreads = 2
  MaxDepth = 2
  BoundC = 99
  MaxIter = 200
  Kinds = {"S"}
  Ctl = {""}
  MaxB = 50
  NSalts = 0
SPECIFICATION Spec
INVARIANT NoRepeat
INVARIANT Terminates
INVARIANT WithinBound
INVARIANT Frozen
INVARIANT FrozenNoPending
INVARIANT TypeOK
INVARIANT Emit
CHECK_DEADLOCK FALSE
